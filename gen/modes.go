package main

import (
	"fmt"
	"go/ast"
	"go/token"
	"path/filepath"
	"sort"
	"strconv"
	"strings"
)

// GenModes (property C04): sequences.go, mouse.go and the start-up / shutdown
// functions of vaxis.go.
//
//   - every string constant / quirk variable of sequences.go  -> seq_<name> : list Z
//   - every integer constant of sequences.go                  -> mode_<name> : Z
//   - the format strings of decset/decrst/decrqm, the prefix and suffix of xtgettcap
//   - const_bytes : cname -> list Z, fmt_bytes : fmtname -> list Z for the
//     vocabulary of model/ModesTypes.v
//   - enableModes, disableModes, enterAltScreen, exitAltScreen, sendQueries and
//     Suspend as `script` = list (cexp * step): every statement becomes one step,
//     guarded by the conjunction of the enclosing `if` conditions
//   - the call skeletons of New, Resume and Close.
//
// Grammar of a translated body (anything else makes the translator die):
//
//	stmt  ::= _, _ = vx.tw.WriteString(E) | _, _ = fmt.Fprintf(vx.tw, F, A...) | io.WriteString(vx.console, E)
//	        | _, _ = vx.tw.Flush() | vx.tw.Flush() | vx.f() | defer vx.f() | vx.HideCursor()
//	        | vx.refresh = true | vx.cursorLast.style = vx.userCursorStyle | _, col := vx.CursorPosition()
//	        | vx.parser.Close() | vx.parser.WaitClose() | signal.Stop(..) | vx.console.Reset()
//	        | if C { stmt* }                     (no else, no init)
//	        | if/switch/return/log statement that mentions nothing output-relevant   (skipped)
//	E     ::= K | "literal" | decset(M) | decrst(M) | decrqm(M) | tparm(F, A...) | xtgettcap("literal")
//	C     ::= vx.caps.<field> | vx.disableMouse | !C | C && C | (C)
//	A     ::= integer literal | integer constant | string literal | string constant
//	        | vx.kittyFlags | vx.appIDLast | int(vx.userCursorStyle)
//
// where `vx.tw.vx` is read as `vx`.

var mdFlags = map[string]string{
	"synchronizedUpdate": "FSync", "unicodeCore": "FUnicode", "explicitWidth": "FExplicit",
	"kittyKeyboard": "FKittyKB", "sixels": "FSixels", "colorThemeUpdates": "FTheme",
	"osc176": "FOsc176", "inBandResize": "FInband",
}

var mdConsts = map[string]string{
	"dsrcpr": "KDsrcpr", "primaryAttributes": "KPrimaryAttributes", "tertiaryAttributes": "KTertiaryAttributes",
	"xtversion": "KXtversion", "kittyKBQuery": "KKittyKBQuery", "kittyKBPop": "KKittyKBPop",
	"kittyGquery": "KKittyGquery", "xtsmSixelGeom": "KXtsmSixelGeom", "userCursorStyle": "KUserCursorStyle",
	"clear": "KClear", "osc10": "KOsc10", "osc11": "KOsc11", "getAppID": "KGetAppID", "sgrReset": "KSgrReset",
	"boldSet": "KBoldSet", "boldDimReset": "KBoldDimReset", "fgReset": "KFgReset",
	"applicationMode": "KApplicationMode", "numericMode": "KNumericMode", "textAreaSize": "KTextAreaSize",
}

var mdFmts = map[string]string{
	"kittyKBEnable": "FmKittyKBEnable", "dsr": "FmDsr", "setAppID": "FmSetAppID", "mouseShape": "FmMouseShape",
	"cursorStyleSet": "FmCursorStyleSet", "cup": "FmCup", "osc8": "FmOsc8", "osc4": "FmOsc4",
	"explicitWidth": "FmExplicitWidth", "fgSet": "FmFgSet", "fgBrightSet": "FmFgBrightSet", "fgIndexSet": "FmFgIndexSet",
}

var mdCalls = map[string]string{
	"enterAltScreen": "FnEnterAlt", "exitAltScreen": "FnExitAlt", "enableModes": "FnEnableModes", "disableModes": "FnDisableModes",
}

// names whose appearance makes a statement output-relevant
var mdOutputNames = map[string]bool{
	"tw": true, "console": true, "WriteString": true, "Write": true, "Fprintf": true, "Fprint": true, "Flush": true,
	"enterAltScreen": true, "exitAltScreen": true, "enableModes": true, "disableModes": true, "Suspend": true,
	"Resume": true, "Close": true, "HideCursor": true, "ShowCursor": true, "CursorPosition": true, "Render": true,
	"Refresh": true, "showCursor": true, "refresh": true, "cursorNext": true, "cursorLast": true,
	"WriteStringLocked": true, "Printf": true, "parser": true, "sendQueries": true, "openTty": true,
}

type mdEnv struct {
	strs  map[string]string // string constants / variables (sequences.go, mouse.go)
	ints  map[string]int64
	order []string // sequences.go names in declaration order
}

func mdPos(n ast.Node) string { return fset.Position(n.Pos()).String() }

func mdCollect(f *ast.File, env *mdEnv, keepOrder bool) {
	for _, d := range f.Decls {
		gd, ok := d.(*ast.GenDecl)
		if !ok || (gd.Tok != token.CONST && gd.Tok != token.VAR) {
			continue
		}
		for _, s := range gd.Specs {
			vs := s.(*ast.ValueSpec)
			if len(vs.Values) != len(vs.Names) {
				continue
			}
			for i, n := range vs.Names {
				switch v := vs.Values[i].(type) {
				case *ast.BasicLit:
					switch v.Kind {
					case token.STRING:
						s, err := strconv.Unquote(v.Value)
						if err != nil {
							die("%s: cannot unquote %s", mdPos(v), v.Value)
						}
						env.strs[n.Name] = s
						if keepOrder {
							env.order = append(env.order, n.Name)
						}
					case token.INT:
						k, ok := intLit(v)
						if !ok {
							die("%s: bad integer literal", mdPos(v))
						}
						env.ints[n.Name] = k
						if keepOrder {
							env.order = append(env.order, n.Name)
						}
					}
				}
			}
		}
	}
}

// vx.tw.vx.tw... is vx.tw; returns the selector path below `vx`, e.g. ["tw","Flush"]
func mdPath(e ast.Expr) ([]string, bool) {
	var rev []string
	for {
		switch v := e.(type) {
		case *ast.SelectorExpr:
			rev = append(rev, v.Sel.Name)
			e = v.X
			continue
		case *ast.Ident:
			if v.Name != "vx" {
				return nil, false
			}
			var p []string
			for i := len(rev) - 1; i >= 0; i-- {
				p = append(p, rev[i])
			}
			// normalise: tw.vx is a detour back to vx
			var out []string
			for _, s := range p {
				if s == "vx" && len(out) > 0 && out[len(out)-1] == "tw" {
					out = out[:len(out)-1]
					continue
				}
				out = append(out, s)
			}
			return out, true
		}
		return nil, false
	}
}

func mdIsPath(e ast.Expr, want ...string) bool {
	p, ok := mdPath(e)
	if !ok || len(p) != len(want) {
		return false
	}
	for i := range p {
		if p[i] != want[i] {
			return false
		}
	}
	return true
}

func mdMentionsOutput(n ast.Node) bool {
	found := false
	ast.Inspect(n, func(x ast.Node) bool {
		switch v := x.(type) {
		case *ast.SelectorExpr:
			if mdOutputNames[v.Sel.Name] {
				found = true
			}
		case *ast.Ident:
			if v.Name == "io" {
				found = true
			}
		}
		return !found
	})
	return found
}

func (env *mdEnv) cond(e ast.Expr) (string, bool) {
	switch v := e.(type) {
	case *ast.ParenExpr:
		return env.cond(v.X)
	case *ast.UnaryExpr:
		if v.Op == token.NOT {
			c, ok := env.cond(v.X)
			if !ok {
				return "", false
			}
			return "(CNot " + c + ")", true
		}
	case *ast.BinaryExpr:
		if v.Op == token.LAND {
			a, ok1 := env.cond(v.X)
			b, ok2 := env.cond(v.Y)
			if ok1 && ok2 {
				return "(CAnd " + a + " " + b + ")", true
			}
		}
	case *ast.SelectorExpr:
		p, ok := mdPath(v)
		if ok && len(p) == 2 && p[0] == "caps" {
			if fl, ok := mdFlags[p[1]]; ok {
				return "(CFlag " + fl + ")", true
			}
			die("%s: condition mentions capability %s, which the C04 vocabulary does not know", mdPos(e), p[1])
		}
		if ok && len(p) == 1 && p[0] == "disableMouse" {
			return "(CFlag FDisableMouse)", true
		}
	}
	return "", false
}

func (env *mdEnv) arg(e ast.Expr) string {
	switch v := e.(type) {
	case *ast.BasicLit:
		switch v.Kind {
		case token.INT:
			n, _ := intLit(v)
			return "(AInt " + coqZ(n) + ")"
		case token.STRING:
			s, _ := strconv.Unquote(v.Value)
			return "(AStr " + coqBytes(s) + ")"
		}
	case *ast.Ident:
		if n, ok := env.ints[v.Name]; ok {
			return "(AInt " + coqZ(n) + ")"
		}
		if s, ok := env.strs[v.Name]; ok {
			return "(AStr " + coqBytes(s) + ")"
		}
	case *ast.SelectorExpr:
		if mdIsPath(v, "kittyFlags") {
			return "AKittyFlags"
		}
		if mdIsPath(v, "appIDLast") {
			return "AAppIDLast"
		}
	case *ast.CallExpr:
		if id, ok := v.Fun.(*ast.Ident); ok && id.Name == "int" && len(v.Args) == 1 && mdIsPath(v.Args[0], "userCursorStyle") {
			return "AUserCursorStyle"
		}
	}
	die("%s: unsupported tparm/Fprintf argument", mdPos(e))
	return ""
}

func (env *mdEnv) parm(fmtE ast.Expr, args []ast.Expr) string {
	id, ok := fmtE.(*ast.Ident)
	if !ok {
		die("%s: format is not a named constant", mdPos(fmtE))
	}
	fm, ok := mdFmts[id.Name]
	if !ok {
		die("%s: format %s is not in the C04 vocabulary", mdPos(fmtE), id.Name)
	}
	var as []string
	for _, a := range args {
		as = append(as, env.arg(a))
	}
	return "(TParm " + fm + " [" + strings.Join(as, "; ") + "])"
}

func (env *mdEnv) modeArg(e ast.Expr) string {
	switch v := e.(type) {
	case *ast.BasicLit:
		if n, ok := intLit(v); ok {
			return coqZ(n)
		}
	case *ast.Ident:
		if n, ok := env.ints[v.Name]; ok {
			return coqZ(n)
		}
	}
	die("%s: mode argument is not an integer constant", mdPos(e))
	return ""
}

func (env *mdEnv) tok(e ast.Expr) string {
	switch v := e.(type) {
	case *ast.BasicLit:
		if v.Kind == token.STRING {
			s, _ := strconv.Unquote(v.Value)
			return "(TLit " + coqBytes(s) + ")"
		}
	case *ast.Ident:
		if k, ok := mdConsts[v.Name]; ok {
			if _, ok := env.strs[v.Name]; !ok {
				die("%s: %s is not a string constant of sequences.go", mdPos(e), v.Name)
			}
			return "(TConst " + k + ")"
		}
		die("%s: constant %s is not in the C04 vocabulary", mdPos(e), v.Name)
	case *ast.CallExpr:
		if id, ok := v.Fun.(*ast.Ident); ok {
			switch id.Name {
			case "decset", "decrst", "decrqm":
				if len(v.Args) != 1 {
					die("%s: %s takes one argument", mdPos(e), id.Name)
				}
				return "(T" + strings.ToUpper(id.Name[:1]) + id.Name[1:] + " " + env.modeArg(v.Args[0]) + ")"
			case "tparm":
				if len(v.Args) < 1 {
					die("%s: tparm without format", mdPos(e))
				}
				return env.parm(v.Args[0], v.Args[1:])
			case "xtgettcap":
				if len(v.Args) == 1 {
					if bl, ok := v.Args[0].(*ast.BasicLit); ok && bl.Kind == token.STRING {
						s, _ := strconv.Unquote(bl.Value)
						return "(TXtgettcap " + coqBytes(s) + ")"
					}
				}
			}
		}
	}
	die("%s: unsupported expression written to the terminal", mdPos(e))
	return ""
}

type mdStep struct{ cond, step string }

func mdConj(a, b string) string {
	if a == "CTrue" {
		return b
	}
	if b == "CTrue" {
		return a
	}
	return "(CAnd " + a + " " + b + ")"
}

func isBlankPair(lhs []ast.Expr) bool {
	if len(lhs) != 2 {
		return false
	}
	for _, l := range lhs {
		id, ok := l.(*ast.Ident)
		if !ok || id.Name != "_" {
			return false
		}
	}
	return true
}

func (env *mdEnv) callStep(call *ast.CallExpr, where ast.Node) (string, bool) {
	sel, ok := call.Fun.(*ast.SelectorExpr)
	if !ok {
		return "", false
	}
	// io.WriteString(vx.console, E)
	if id, ok := sel.X.(*ast.Ident); ok && id.Name == "io" && sel.Sel.Name == "WriteString" {
		if len(call.Args) == 2 && mdIsPath(call.Args[0], "console") {
			return "(SDirect " + env.tok(call.Args[1]) + ")", true
		}
		die("%s: io.WriteString to something that is not vx.console", mdPos(where))
	}
	if id, ok := sel.X.(*ast.Ident); ok && id.Name == "signal" && sel.Sel.Name == "Stop" {
		return "SSignalStop", true
	}
	if id, ok := sel.X.(*ast.Ident); ok && id.Name == "fmt" && sel.Sel.Name == "Fprintf" {
		if len(call.Args) >= 2 && mdIsPath(call.Args[0], "tw") {
			return "(SFprintf " + env.parm(call.Args[1], call.Args[2:]) + ")", true
		}
		die("%s: fmt.Fprintf to something that is not vx.tw", mdPos(where))
	}
	p, ok := mdPath(sel)
	if !ok {
		return "", false
	}
	switch {
	case len(p) == 2 && p[0] == "tw" && p[1] == "WriteString":
		if len(call.Args) != 1 {
			die("%s: WriteString takes one argument", mdPos(where))
		}
		return "(SWriteString " + env.tok(call.Args[0]) + ")", true
	case len(p) == 2 && p[0] == "tw" && p[1] == "Flush":
		return "SFlush", true
	case len(p) == 1 && p[0] == "HideCursor":
		return "SHideCursor", true
	case len(p) == 1 && p[0] == "CursorPosition":
		return "SCursorPosQuery", true
	case len(p) == 1 && mdCalls[p[0]] != "":
		return "(SCall " + mdCalls[p[0]] + ")", true
	case len(p) == 2 && p[0] == "parser" && p[1] == "Close":
		return "SParserClose", true
	case len(p) == 2 && p[0] == "parser" && p[1] == "WaitClose":
		return "SParserWait", true
	case len(p) == 2 && p[0] == "console" && p[1] == "Reset":
		return "SConsoleReset", true
	}
	return "", false
}

func (env *mdEnv) stmts(list []ast.Stmt, cond string, out *[]mdStep) {
	for _, s := range list {
		switch v := s.(type) {
		case *ast.AssignStmt:
			if len(v.Rhs) == 1 {
				if call, ok := v.Rhs[0].(*ast.CallExpr); ok {
					if st, ok := env.callStep(call, s); ok {
						if st == "SCursorPosQuery" || isBlankPair(v.Lhs) {
							*out = append(*out, mdStep{cond, st})
							continue
						}
						die("%s: result of an output call is used", mdPos(s))
					}
				}
				if len(v.Lhs) == 1 && v.Tok == token.ASSIGN {
					if mdIsPath(v.Lhs[0], "refresh") {
						if id, ok := v.Rhs[0].(*ast.Ident); ok && id.Name == "true" {
							*out = append(*out, mdStep{cond, "SSetRefresh"})
							continue
						}
					}
					if mdIsPath(v.Lhs[0], "cursorLast", "style") && mdIsPath(v.Rhs[0], "userCursorStyle") {
						*out = append(*out, mdStep{cond, "SSetLastStyleUser"})
						continue
					}
				}
			}
			if !mdMentionsOutput(s) {
				continue
			}
			die("%s: unsupported assignment in a translated function", mdPos(s))
		case *ast.ExprStmt:
			if call, ok := v.X.(*ast.CallExpr); ok {
				if st, ok := env.callStep(call, s); ok {
					*out = append(*out, mdStep{cond, st})
					continue
				}
			}
			if !mdMentionsOutput(s) {
				continue
			}
			die("%s: unsupported call in a translated function", mdPos(s))
		case *ast.DeferStmt:
			p, ok := mdPath(v.Call.Fun)
			if ok && len(p) == 1 && mdCalls[p[0]] != "" && cond == "CTrue" {
				*out = append(*out, mdStep{cond, "(SDefer " + mdCalls[p[0]] + ")"})
				continue
			}
			die("%s: unsupported defer", mdPos(s))
		case *ast.IfStmt:
			if v.Init == nil && v.Else == nil {
				if c, ok := env.cond(v.Cond); ok {
					env.stmts(v.Body.List, mdConj(cond, c), out)
					continue
				}
			}
			if !mdMentionsOutput(s) {
				continue
			}
			die("%s: unsupported if statement (condition outside the grammar or else-branch) around output", mdPos(s))
		case *ast.ReturnStmt, *ast.SwitchStmt:
			if !mdMentionsOutput(s) {
				continue
			}
			die("%s: output inside a switch/return", mdPos(s))
		default:
			die("%s: unsupported statement %T in a translated function", mdPos(s), s)
		}
	}
}

func (env *mdEnv) script(f *ast.File, name, coqName string, b *strings.Builder) {
	fd := findFunc(f, "Vaxis", name)
	if fd == nil || fd.Body == nil {
		die("vaxis.go: func (vx *Vaxis) %s not found", name)
	}
	var out []mdStep
	env.stmts(fd.Body.List, "CTrue", &out)
	if len(out) == 0 {
		die("vaxis.go: %s translates to an empty script", name)
	}
	fmt.Fprintf(b, "Definition %s : script :=\n  [", coqName)
	for i, s := range out {
		if i > 0 {
			b.WriteString(";\n   ")
		}
		fmt.Fprintf(b, "(%s, %s)", s.cond, s.step)
	}
	b.WriteString("].\n\n")
}

// call skeleton: the known calls on vx (method calls, vx.console.Close) in source
// order; any other call on vx.tw / vx.console / vx.parser, or of a method whose
// name is output-relevant, is refused
func mdSkeleton(f *ast.File, name string, known map[string]string, ignore map[string]bool) []string {
	fd := findFunc(f, "Vaxis", name)
	if name == "New" {
		fd = findFunc(f, "", "New")
	}
	if fd == nil {
		die("vaxis.go: %s not found", name)
	}
	// `x, err := vx.reportWinsize(); if err != nil { vx.Close(); return ... }`: the
	// Close call of that error branch is the only vx.Close() a skeleton may contain
	closeOnError := map[*ast.CallExpr]bool{}
	for i, st := range fd.Body.List {
		as, ok := st.(*ast.AssignStmt)
		if !ok || len(as.Rhs) != 1 || i+1 >= len(fd.Body.List) {
			continue
		}
		call, ok := as.Rhs[0].(*ast.CallExpr)
		if !ok || !mdIsPath(call.Fun, "reportWinsize") {
			continue
		}
		is, ok := fd.Body.List[i+1].(*ast.IfStmt)
		if !ok || is.Else != nil {
			continue
		}
		be, ok := is.Cond.(*ast.BinaryExpr)
		if !ok || be.Op != token.NEQ || !isIdent(be.X, "err") || !isIdent(be.Y, "nil") {
			continue
		}
		for _, b := range is.Body.List {
			if es, ok := b.(*ast.ExprStmt); ok {
				if c, ok := es.X.(*ast.CallExpr); ok && mdIsPath(c.Fun, "Close") {
					closeOnError[c] = true
				}
			}
		}
	}
	var out []string
	ast.Inspect(fd.Body, func(x ast.Node) bool {
		if _, ok := x.(*ast.FuncLit); ok {
			return false
		}
		call, ok := x.(*ast.CallExpr)
		if !ok {
			return true
		}
		p, ok := mdPath(call.Fun)
		if !ok {
			return true
		}
		key := strings.Join(p, ".")
		if closeOnError[call] {
			out = append(out, "CnCloseIfFailed")
			return true
		}
		if c, ok := known[key]; ok {
			out = append(out, c)
			return true
		}
		if ignore[key] {
			return true
		}
		if p[0] == "tw" || p[0] == "console" || p[0] == "parser" || mdOutputNames[p[len(p)-1]] {
			die("%s: %s calls vx.%s, which the C04 call skeleton does not know", mdPos(call), name, key)
		}
		return true
	})
	return out
}

func init() {
	register("GenModes", func(repo string) string {
		seqF := parseFile(filepath.Join(repo, "sequences.go"))
		env := &mdEnv{strs: map[string]string{}, ints: map[string]int64{}}
		mdCollect(seqF, env, true)
		mdCollect(parseFile(filepath.Join(repo, "mouse.go")), env, false)
		var b strings.Builder
		b.WriteString("From Vx Require Import base.Prelude model.ModesTypes.\n\n")
		for _, n := range env.order {
			if s, ok := env.strs[n]; ok {
				fmt.Fprintf(&b, "Definition seq_%s : list Z := %s.\n", n, coqBytes(s))
			} else {
				fmt.Fprintf(&b, "Definition mode_%s : Z := %s.\n", n, coqZ(env.ints[n]))
			}
		}
		// decset / decrst / decrqm: return fmt.Sprintf(LIT, mode)
		for _, fn := range []string{"decset", "decrst", "decrqm"} {
			fd := findFunc(seqF, "", fn)
			if fd == nil || len(fd.Body.List) != 1 {
				die("sequences.go: %s is not a single return", fn)
			}
			ret, ok := fd.Body.List[0].(*ast.ReturnStmt)
			if !ok || len(ret.Results) != 1 {
				die("sequences.go: %s is not a single return", fn)
			}
			call, ok := ret.Results[0].(*ast.CallExpr)
			if !ok || len(call.Args) != 2 {
				die("sequences.go: %s does not return fmt.Sprintf(lit, mode)", fn)
			}
			lit, ok := call.Args[0].(*ast.BasicLit)
			if !ok || lit.Kind != token.STRING {
				die("sequences.go: %s: format is not a literal", fn)
			}
			s, _ := strconv.Unquote(lit.Value)
			fmt.Fprintf(&b, "Definition %s_fmt : list Z := %s.\n", fn, coqBytes(s))
		}
		// tparm must be fmt.Sprintf(s, args...)
		if fd := findFunc(seqF, "", "tparm"); fd == nil || len(fd.Body.List) != 1 {
			die("sequences.go: tparm is not a single return")
		}
		// xtgettcap: return LIT + hexEncode(cap) + LIT ; hexEncode: fmt.Sprintf("%X", cap)
		{
			fd := findFunc(seqF, "", "xtgettcap")
			if fd == nil || len(fd.Body.List) != 1 {
				die("sequences.go: xtgettcap is not a single return")
			}
			ret, ok := fd.Body.List[0].(*ast.ReturnStmt)
			if !ok || len(ret.Results) != 1 {
				die("sequences.go: xtgettcap is not a single return")
			}
			outer, ok := ret.Results[0].(*ast.BinaryExpr)
			if !ok || outer.Op != token.ADD {
				die("sequences.go: xtgettcap is not lit + hexEncode(cap) + lit")
			}
			inner, ok := outer.X.(*ast.BinaryExpr)
			suf, ok2 := outer.Y.(*ast.BasicLit)
			if !ok || !ok2 || inner.Op != token.ADD {
				die("sequences.go: xtgettcap is not lit + hexEncode(cap) + lit")
			}
			pre, ok := inner.X.(*ast.BasicLit)
			mid, ok2 := inner.Y.(*ast.CallExpr)
			if !ok || !ok2 {
				die("sequences.go: xtgettcap is not lit + hexEncode(cap) + lit")
			}
			if id, ok := mid.Fun.(*ast.Ident); !ok || id.Name != "hexEncode" {
				die("sequences.go: xtgettcap does not call hexEncode")
			}
			ps, _ := strconv.Unquote(pre.Value)
			ss, _ := strconv.Unquote(suf.Value)
			fmt.Fprintf(&b, "Definition xtgettcap_pre : list Z := %s.\nDefinition xtgettcap_suf : list Z := %s.\n", coqBytes(ps), coqBytes(ss))
			hd := findFunc(seqF, "", "hexEncode")
			okHex := false
			if hd != nil && len(hd.Body.List) == 1 {
				if ret, ok := hd.Body.List[0].(*ast.ReturnStmt); ok && len(ret.Results) == 1 {
					if call, ok := ret.Results[0].(*ast.CallExpr); ok && len(call.Args) == 2 {
						if lit, ok := call.Args[0].(*ast.BasicLit); ok && lit.Value == `"%X"` {
							okHex = true
						}
					}
				}
			}
			if !okHex {
				die("sequences.go: hexEncode is not fmt.Sprintf(\"%%X\", cap)")
			}
		}
		// vocabulary tables
		var ks, fs []string
		for k := range mdConsts {
			ks = append(ks, k)
		}
		for k := range mdFmts {
			fs = append(fs, k)
		}
		sort.Strings(ks)
		sort.Strings(fs)
		b.WriteString("\nDefinition const_bytes (k : cname) : list Z :=\n  match k with\n")
		for _, k := range ks {
			s, ok := env.strs[k]
			if !ok {
				die("sequences.go: string constant %s not found", k)
			}
			if strings.Contains(s, "%") {
				die("sequences.go: constant %s now contains a format verb", k)
			}
			fmt.Fprintf(&b, "  | %s => seq_%s\n", mdConsts[k], k)
		}
		b.WriteString("  end.\n\nDefinition fmt_bytes (f : fmtname) : list Z :=\n  match f with\n")
		for _, k := range fs {
			if _, ok := env.strs[k]; !ok {
				die("sequences.go: format string %s not found", k)
			}
			fmt.Fprintf(&b, "  | %s => seq_%s\n", mdFmts[k], k)
		}
		b.WriteString("  end.\n\n")

		vf := parseFile(filepath.Join(repo, "vaxis.go"))
		env.script(vf, "enableModes", "enable_modes", &b)
		env.script(vf, "disableModes", "disable_modes", &b)
		env.script(vf, "enterAltScreen", "enter_alt", &b)
		env.script(vf, "exitAltScreen", "exit_alt", &b)
		env.script(vf, "sendQueries", "send_queries", &b)
		env.script(vf, "Suspend", "suspend_script", &b)

		known := map[string]string{
			"openTty": "CnOpenTty", "sendQueries": "CnSendQueries", "applyQuirks": "CnApplyQuirks",
			"enterAltScreen": "CnEnterAlt", "enableModes": "CnEnableModes", "setupSignals": "CnSetupSignals",
			"reportWinsize": "CnReportWinsize", "Suspend": "CnSuspend", "console.Close": "CnConsoleClose",
		}
		ignore := map[string]bool{"PostEvent": true}
		for _, fn := range []struct{ goName, coqName string }{{"New", "new_calls"}, {"Resume", "resume_calls"}, {"Close", "close_calls"}} {
			cs := mdSkeleton(vf, fn.goName, known, ignore)
			fmt.Fprintf(&b, "Definition %s : list callname := [%s].\n", fn.coqName, strings.Join(cs, "; "))
		}
		// Close must start with `if vx.closed { return }` and set vx.closed = true before Suspend
		{
			fd := findFunc(vf, "Vaxis", "Close")
			guarded := false
			if len(fd.Body.List) > 0 {
				if is, ok := fd.Body.List[0].(*ast.IfStmt); ok && mdIsPath(is.Cond, "closed") && len(is.Body.List) == 1 {
					if _, ok := is.Body.List[0].(*ast.ReturnStmt); ok {
						guarded = true
					}
				}
			}
			sets := false
			for _, s := range fd.Body.List {
				if as, ok := s.(*ast.AssignStmt); ok && len(as.Lhs) == 1 && mdIsPath(as.Lhs[0], "closed") {
					if id, ok := as.Rhs[0].(*ast.Ident); ok && id.Name == "true" {
						sets = true
					}
				}
			}
			fmt.Fprintf(&b, "Definition close_guarded : bool := %v.\n", guarded && sets)
			// ... and WHERE it sets it: `vx.closed = true` as a statement of Close's body that
			// precedes the statement calling vx.Suspend().  Only then does a Close that overlaps
			// the one in flight (signal / panic path waiting in Suspend) see the flag.
			early := false
			for _, s := range fd.Body.List {
				if es, ok := s.(*ast.ExprStmt); ok {
					if c, ok := es.X.(*ast.CallExpr); ok && mdIsPath(c.Fun, "Suspend") {
						break
					}
				}
				if as, ok := s.(*ast.AssignStmt); ok && len(as.Lhs) == 1 && mdIsPath(as.Lhs[0], "closed") {
					if id, ok := as.Rhs[0].(*ast.Ident); ok && id.Name == "true" {
						early = true
					}
				}
			}
			fmt.Fprintf(&b, "Definition close_flag_early : bool := %v.\n", guarded && early)
		}
		return b.String()
	})
}
