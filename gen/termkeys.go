package main

import (
	"fmt"
	"go/ast"
	"go/token"
	"path/filepath"
	"strconv"
	"strings"
)

// GenTermKeys (property C13): the tables of the embedded terminal's key encoder and
// the constants of the host's mouse decoder.
//
//	widgets/term/key.go
//	  - `var xtermKeymap = map[rune]keycode{vaxis.KeyX: {n, 'f'}, ...}`       -> list (Z * (Z * Z))
//	  - `var cursorKeysApplicationMode, cursorKeysNormalMode, numericKeymap,
//	     applicationKeymap, keymap = map[rune]string{vaxis.KeyX: "...", ...}` -> list (Z * list Z) (bytes)
//	  - the Ctrl+digit switch of encodeXterm
//	    (`switch key.Keycode { case '1': buf.WriteRune(c) ... case '9': default: buf.WriteRune(key.Keycode - k) }`)
//	    -> ctrlSwitch : list (Z * option Z), ctrlDefaultOffset : Z
//	mouse.go
//	  - the integer constants MouseLeftButton ... MouseButton11 and motion, buttonBits,
//	    mouseModShift, mouseModAlt, mouseModCtrl.
//
// Map keys are written `vaxis.KeyX` and are emitted as the constant KeyX of
// gen/GenKeys.v (the name must be a constant of /repo/key.go).  Anything outside this
// grammar makes the translator die.

func termKeysKey(e ast.Expr, root *keysEnv, what string) string {
	if sel, ok := e.(*ast.SelectorExpr); ok {
		id, ok := sel.X.(*ast.Ident)
		if !ok || id.Name != "vaxis" {
			die("widgets/term/key.go: %s: map key is not vaxis.KeyX", what)
		}
		if _, ok := root.vals[sel.Sel.Name]; !ok || !strings.HasPrefix(sel.Sel.Name, "Key") {
			die("widgets/term/key.go: %s: map key vaxis.%s is not a Key* constant of key.go", what, sel.Sel.Name)
		}
		return sel.Sel.Name
	}
	if n, ok := intLit(e); ok {
		return coqZ(n)
	}
	die("widgets/term/key.go: %s: unsupported map key %T", what, e)
	return ""
}

func termKeysMapLit(f *ast.File, name string) *ast.CompositeLit {
	e := findVar(f, name)
	if e == nil {
		die("widgets/term/key.go: var %s not found", name)
	}
	cl, ok := e.(*ast.CompositeLit)
	if !ok {
		die("widgets/term/key.go: %s is not a composite literal", name)
	}
	mt, ok := cl.Type.(*ast.MapType)
	if !ok {
		die("widgets/term/key.go: %s is not a map literal", name)
	}
	if id, ok := mt.Key.(*ast.Ident); !ok || id.Name != "rune" {
		die("widgets/term/key.go: %s is not keyed by rune", name)
	}
	return cl
}

// integer constants of a file; constants with non-integer values are skipped
func termKeysIntConsts(f *ast.File, file string) map[string]int64 {
	vals := map[string]int64{}
	var eval func(x ast.Expr, iota int64) (int64, bool)
	eval = func(x ast.Expr, iota int64) (int64, bool) {
		switch v := x.(type) {
		case *ast.BasicLit:
			return intLit(v)
		case *ast.ParenExpr:
			return eval(v.X, iota)
		case *ast.Ident:
			if v.Name == "iota" {
				return iota, true
			}
			n, ok := vals[v.Name]
			return n, ok
		case *ast.BinaryExpr:
			a, ok1 := eval(v.X, iota)
			b, ok2 := eval(v.Y, iota)
			if !ok1 || !ok2 {
				return 0, false
			}
			switch v.Op {
			case token.ADD:
				return a + b, true
			case token.SUB:
				return a - b, true
			case token.SHL:
				return a << uint(b), true
			case token.OR:
				return a | b, true
			}
			die("%s: unsupported operator %s in constant expression", file, v.Op)
		}
		return 0, false
	}
	for _, d := range f.Decls {
		gd, ok := d.(*ast.GenDecl)
		if !ok || gd.Tok != token.CONST {
			continue
		}
		var last []ast.Expr
		for i, s := range gd.Specs {
			vs := s.(*ast.ValueSpec)
			if len(vs.Values) > 0 {
				last = vs.Values
			}
			if len(last) != len(vs.Names) {
				continue
			}
			for j, n := range vs.Names {
				if v, ok := eval(last[j], int64(i)); ok {
					vals[n.Name] = v
				}
			}
		}
	}
	return vals
}

func init() {
	register("GenTermKeys", func(repo string) string {
		root := keysConsts(parseFile(filepath.Join(repo, "key.go")))
		f := parseFile(filepath.Join(repo, "widgets", "term", "key.go"))
		var b strings.Builder
		b.WriteString("From Vx Require Import gen.GenKeys.\n\n")

		// xtermKeymap
		cl := termKeysMapLit(f, "xtermKeymap")
		if len(cl.Elts) == 0 {
			die("widgets/term/key.go: xtermKeymap is empty")
		}
		b.WriteString("Definition xtermKeymap : list (Z * (Z * Z)) :=\n  [")
		seen := map[string]bool{}
		for i, el := range cl.Elts {
			kv, ok := el.(*ast.KeyValueExpr)
			if !ok {
				die("widgets/term/key.go: xtermKeymap element %d is not key: value", i)
			}
			k := termKeysKey(kv.Key, root, "xtermKeymap")
			if seen[k] {
				die("widgets/term/key.go: xtermKeymap has the key %s twice", k)
			}
			seen[k] = true
			v, ok := kv.Value.(*ast.CompositeLit)
			if !ok || len(v.Elts) != 2 {
				die("widgets/term/key.go: xtermKeymap value %d is not {number, final}", i)
			}
			if _, ok := v.Elts[0].(*ast.KeyValueExpr); ok {
				die("widgets/term/key.go: xtermKeymap value %d uses field names", i)
			}
			num, ok1 := intLit(v.Elts[0])
			fin, ok2 := intLit(v.Elts[1])
			if !ok1 || !ok2 {
				die("widgets/term/key.go: xtermKeymap value %d is not {int literal, rune literal}", i)
			}
			if i > 0 {
				b.WriteString(";\n   ")
			}
			fmt.Fprintf(&b, "(%s, (%s, %s))", k, coqZ(num), coqZ(fin))
		}
		b.WriteString("].\n")

		// the keycode struct must be {number int; final rune} in this order
		okStruct := false
		for _, d := range f.Decls {
			gd, ok := d.(*ast.GenDecl)
			if !ok || gd.Tok != token.TYPE {
				continue
			}
			for _, s := range gd.Specs {
				ts := s.(*ast.TypeSpec)
				if ts.Name.Name != "keycode" {
					continue
				}
				st, ok := ts.Type.(*ast.StructType)
				if !ok || len(st.Fields.List) != 2 || len(st.Fields.List[0].Names) != 1 || len(st.Fields.List[1].Names) != 1 ||
					st.Fields.List[0].Names[0].Name != "number" || st.Fields.List[1].Names[0].Name != "final" {
					die("widgets/term/key.go: type keycode is not struct{number; final}")
				}
				okStruct = true
			}
		}
		if !okStruct {
			die("widgets/term/key.go: type keycode not found")
		}

		// the five string maps
		for _, name := range []string{"cursorKeysApplicationMode", "cursorKeysNormalMode", "numericKeymap", "applicationKeymap", "keymap"} {
			cl := termKeysMapLit(f, name)
			fmt.Fprintf(&b, "\nDefinition %s : list (Z * list Z) :=\n  [", name)
			seen := map[string]bool{}
			for i, el := range cl.Elts {
				kv, ok := el.(*ast.KeyValueExpr)
				if !ok {
					die("widgets/term/key.go: %s element %d is not key: value", name, i)
				}
				k := termKeysKey(kv.Key, root, name)
				if seen[k] {
					die("widgets/term/key.go: %s has the key %s twice", name, k)
				}
				seen[k] = true
				lit, ok := kv.Value.(*ast.BasicLit)
				if !ok || lit.Kind != token.STRING {
					die("widgets/term/key.go: %s value %d is not a string literal", name, i)
				}
				s, err := strconv.Unquote(lit.Value)
				if err != nil {
					die("widgets/term/key.go: %s value %d: %v", name, i, err)
				}
				if i > 0 {
					b.WriteString(";\n   ")
				}
				fmt.Fprintf(&b, "(%s, %s)", k, coqBytes(s))
			}
			b.WriteString("].\n")
		}

		// the Ctrl switch of encodeXterm
		fd := findFunc(f, "", "encodeXterm")
		if fd == nil {
			die("widgets/term/key.go: encodeXterm not found")
		}
		isKeycode := func(e ast.Expr) bool {
			sel, ok := e.(*ast.SelectorExpr)
			if !ok || sel.Sel.Name != "Keycode" {
				return false
			}
			id, ok := sel.X.(*ast.Ident)
			return ok && id.Name == "key"
		}
		writeRuneArg := func(st ast.Stmt) ast.Expr {
			es, ok := st.(*ast.ExprStmt)
			if !ok {
				return nil
			}
			call, ok := es.X.(*ast.CallExpr)
			if !ok || len(call.Args) != 1 {
				return nil
			}
			sel, ok := call.Fun.(*ast.SelectorExpr)
			if !ok || sel.Sel.Name != "WriteRune" {
				return nil
			}
			return call.Args[0]
		}
		var cases []string
		offset := int64(-1)
		nsw := 0
		ast.Inspect(fd.Body, func(nd ast.Node) bool {
			sw, ok := nd.(*ast.SwitchStmt)
			if !ok || sw.Tag == nil || !isKeycode(sw.Tag) {
				return true
			}
			nsw++
			for _, st := range sw.Body.List {
				c := st.(*ast.CaseClause)
				if c.List == nil {
					// default: buf.WriteRune(key.Keycode - k)
					if len(c.Body) != 1 {
						die("widgets/term/key.go: encodeXterm Ctrl switch: default is not one WriteRune")
					}
					arg := writeRuneArg(c.Body[0])
					be, ok := arg.(*ast.BinaryExpr)
					if arg == nil || !ok || be.Op != token.SUB || !isKeycode(be.X) {
						die("widgets/term/key.go: encodeXterm Ctrl switch: default is not buf.WriteRune(key.Keycode - k)")
					}
					k, ok := intLit(be.Y)
					if !ok {
						die("widgets/term/key.go: encodeXterm Ctrl switch: default offset is not a literal")
					}
					offset = k
					continue
				}
				if len(c.List) != 1 {
					die("widgets/term/key.go: encodeXterm Ctrl switch: case with several values")
				}
				v, ok := intLit(c.List[0])
				if !ok {
					die("widgets/term/key.go: encodeXterm Ctrl switch: case value is not a literal")
				}
				switch len(c.Body) {
				case 0:
					cases = append(cases, fmt.Sprintf("(%s, None)", coqZ(v)))
				case 1:
					arg := writeRuneArg(c.Body[0])
					if arg == nil {
						die("widgets/term/key.go: encodeXterm Ctrl switch: case body is not buf.WriteRune(c)")
					}
					w, ok := intLit(arg)
					if !ok {
						die("widgets/term/key.go: encodeXterm Ctrl switch: WriteRune argument is not a literal")
					}
					cases = append(cases, fmt.Sprintf("(%s, Some %s)", coqZ(v), coqZ(w)))
				default:
					die("widgets/term/key.go: encodeXterm Ctrl switch: case body with several statements")
				}
			}
			return false
		})
		if nsw != 1 || offset < 0 {
			die("widgets/term/key.go: encodeXterm: expected exactly one `switch key.Keycode` with a default (found %d)", nsw)
		}
		fmt.Fprintf(&b, "\nDefinition ctrlSwitch : list (Z * option Z) :=\n  [%s].\n", strings.Join(cases, "; "))
		fmt.Fprintf(&b, "Definition ctrlDefaultOffset : Z := %s.\n", coqZ(offset))

		// mouse.go constants
		mv := termKeysIntConsts(parseFile(filepath.Join(repo, "mouse.go")), "mouse.go")
		b.WriteString("\n")
		for _, name := range []string{"MouseLeftButton", "MouseMiddleButton", "MouseRightButton", "MouseNoButton",
			"MouseWheelUp", "MouseWheelDown", "MouseButton8", "MouseButton9", "MouseButton10", "MouseButton11",
			"motion", "buttonBits", "mouseModShift", "mouseModAlt", "mouseModCtrl"} {
			v, ok := mv[name]
			if !ok {
				die("mouse.go: integer constant %s not found", name)
			}
			coqName := name
			if !strings.HasPrefix(name, "Mouse") && !strings.HasPrefix(name, "mouse") {
				coqName = "mouse_" + name
			}
			fmt.Fprintf(&b, "Definition %s : Z := %s.\n", coqName, coqZ(v))
		}
		return b.String()
	})
}
