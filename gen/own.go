package main

import (
	"fmt"
	"go/ast"
	"go/token"
	"path/filepath"
	"strings"
)

// GenOwn: ansi/parser.go — for every function that touches one of the parser's
// reusable buffers (p.intermediate, p.oscData, p.apcData, p.dcs) the ordered list
// of ownership-relevant statements: a buffer is aliased into an outgoing
// sequence, a sequence is emitted, the parser's field is re-pointed (fresh
// allocation, a pool Get, or a reslice of the same array), the buffer is written.
// Two renderings per function:
//
//	own_<f>   : one list, conditions ignored (statements of if-bodies taken in textual order) -
//	            the coarse over-approximation of what one call can do;
//	paths_<f> : one list PER CONTROL-FLOW PATH from entry to a return (or the end of the body):
//	            an if contributes its taken and its not-taken branch, a return ends the path, a
//	            switch contributes one path per clause (plus "no clause" without a default), a
//	            loop is accepted only when every iteration that goes on (falls out of the body,
//	            continue, break) performs no ownership action - then the loop contributes
//	            nothing, or the actions of an iteration that returns.  Conditions are not
//	            evaluated (every branch combination is a path), so the set over-approximates
//	            the feasible paths; what a merged list hides - an early return between the
//	            emit and the re-pointing of the field - is a path of its own here.
//
// POOLED LOCALS.  A function may also take buffers from the parser's pools into locals
// (csiDispatch: `param := p.paramPool.Get()[:0]`, `csi.Parameters = p.paramListPool.Get()[:0]`).
// Every designator (an identifier, or a field of a local struct - the sequence under
// construction) that is assigned a pool Get is a buffer kind of its own, `KLoc i`, numbered per
// function in order of appearance; it dies when the function returns.  Accepted statements about
// a pooled local L:  L = <pool>.Get()[..] / make(..)  (re-pointed; a field of the sequence under
// construction is part of that sequence from then on: OAlias),  L = append(L, x...)  (a write;
// every buffer mentioned in x is attached to the sequence: OAlias),  L[i] = x  (a write),
// L = L[a:b]  (OReplace L Reslice: the SAME array under a new view), p.emit(..L..).  Anything else
// that keeps a reference to L (another variable, a call, a return, a parser field) is refused.
// LOOPS whose iterations perform ownership actions are rendered as a loop segment: the action
// lists of the iterations that go on (one per path through the body); lpaths_<f> is the list of
// the function's paths as segment lists (SActs straight-line, SLoop any number of iterations in
// any order), paths_<f> the same paths with every such loop executed zero times.
var ownKinds = map[string]string{"intermediate": "KInter", "oscData": "KOsc", "apcData": "KApc", "dcs": "KDcs"}

// pooled locals of the function being translated: designator -> index
var (
	curLocals     map[string]int
	curLocalNames []string
)

func localKind(i int) string { return fmt.Sprintf("(KLoc %d)", i) }

// desString: "x" for an identifier, "x.F" for a field of a local (not p) identifier
func desString(e ast.Expr) (string, bool) {
	switch v := e.(type) {
	case *ast.Ident:
		if v.Name == "p" || v.Name == "_" {
			return "", false
		}
		return v.Name, true
	case *ast.SelectorExpr:
		if id, ok := v.X.(*ast.Ident); ok && id.Name != "p" {
			return id.Name + "." + v.Sel.Name, true
		}
	}
	return "", false
}

func lDes(e ast.Expr) (int, bool) {
	d, ok := desString(e)
	if !ok {
		return 0, false
	}
	i, ok := curLocals[d]
	return i, ok
}

func rooted(i int) bool { return strings.Contains(curLocalNames[i], ".") }

// isPoolGet: p.<x>.Get() or a slice expression of it
func isPoolGet(e ast.Expr) bool {
	if sl, ok := e.(*ast.SliceExpr); ok {
		e = sl.X
	}
	call, ok := e.(*ast.CallExpr)
	if !ok {
		return false
	}
	se, ok := call.Fun.(*ast.SelectorExpr)
	if !ok || se.Sel.Name != "Get" {
		return false
	}
	inner, ok := se.X.(*ast.SelectorExpr)
	return ok && isIdent(inner.X, "p")
}

// aliasingLocal: e keeps a reference to the array of pooled local i (mentions outside len/cap/
// string(..) and outside the operand of an index expression)
func aliasingLocal(e ast.Node, i int) bool {
	found := false
	ast.Inspect(e, func(n ast.Node) bool {
		switch c := n.(type) {
		case *ast.CallExpr:
			if id, ok := c.Fun.(*ast.Ident); ok && (id.Name == "string" || id.Name == "len" || id.Name == "cap") {
				return false
			}
		case *ast.IndexExpr:
			return false
		}
		if x, ok := n.(ast.Expr); ok {
			if j, ok := lDes(x); ok && j == i {
				found = true
				return false
			}
		}
		return true
	})
	return found
}

func anyLocalAliased(e ast.Node) bool {
	for i := range curLocalNames {
		if aliasingLocal(e, i) {
			return true
		}
	}
	return false
}

// findLocals registers the pooled locals of a function body and checks that every pool Get is the
// right-hand side of an assignment to a parser field or to a local designator, and that the local
// struct a designator is a field of is only built, filled field by field, and emitted
func findLocals(name string, body *ast.BlockStmt) {
	curLocals = map[string]int{}
	curLocalNames = nil
	gets, accepted := 0, 0
	ast.Inspect(body, func(n ast.Node) bool {
		switch v := n.(type) {
		case *ast.CallExpr:
			if isPoolGet(v) {
				gets++
			}
		case *ast.AssignStmt:
			if len(v.Lhs) == 1 && len(v.Rhs) == 1 && isPoolGet(v.Rhs[0]) {
				if _, ok := pField(v.Lhs[0]); ok {
					accepted++
				} else if d, ok := desString(v.Lhs[0]); ok {
					accepted++
					if _, seen := curLocals[d]; !seen {
						curLocals[d] = len(curLocalNames)
						curLocalNames = append(curLocalNames, d)
					}
				}
			}
		}
		return true
	})
	if gets != accepted {
		die("ansi/parser.go: %s: a pool Get that is not assigned to a parser field or a local designator", name)
	}
	roots := map[string]bool{}
	for _, d := range curLocalNames {
		if k := strings.Index(d, "."); k >= 0 {
			roots[d[:k]] = true
		}
	}
	for root := range roots {
		all, ok := 0, 0
		ast.Inspect(body, func(n ast.Node) bool {
			switch v := n.(type) {
			case *ast.Ident:
				if v.Name == root {
					all++
				}
			case *ast.SelectorExpr:
				if isIdent(v.X, root) {
					ok++
				}
			case *ast.CallExpr:
				if se, isSel := v.Fun.(*ast.SelectorExpr); isSel && isIdent(se.X, "p") && se.Sel.Name == "emit" && len(v.Args) == 1 && isIdent(v.Args[0], root) {
					ok++
				}
			case *ast.AssignStmt:
				if v.Tok == token.DEFINE && len(v.Lhs) == 1 && isIdent(v.Lhs[0], root) {
					if _, lit := v.Rhs[0].(*ast.CompositeLit); lit {
						ok++
					}
				}
			}
			return true
		})
		if all != ok {
			die("ansi/parser.go: %s: the local %s that carries a pooled buffer is used other than field by field / in p.emit", name, root)
		}
	}
}

// localRHS: the ownership actions of  L = rhs  for pooled local i
func localRHS(i int, rhs ast.Expr) []string {
	k := localKind(i)
	attach := func(acts []string) []string {
		if rooted(i) {
			return append(acts, "OAlias "+k)
		}
		return acts
	}
	if isPoolGet(rhs) {
		return attach([]string{"OReplace " + k + " PoolGet"})
	}
	switch v := rhs.(type) {
	case *ast.SliceExpr:
		if j, ok := lDes(v.X); ok && j == i {
			for _, ix := range []ast.Expr{v.Low, v.High, v.Max} {
				if ix != nil && (anyLocalAliased(ix) || touchesField(ix)) {
					die("%s: slice bound keeps a reference to a buffer", pos(rhs))
				}
			}
			return []string{"OReplace " + k + " Reslice"}
		}
	case *ast.CallExpr:
		if id, ok := v.Fun.(*ast.Ident); ok {
			switch id.Name {
			case "append":
				if len(v.Args) >= 1 {
					if j, ok := lDes(v.Args[0]); ok && j == i {
						acts := []string{"OWrite " + k}
						for _, a := range v.Args[1:] {
							for _, kind := range ownKindOrder {
								if aliasing(a, kind) {
									acts = append(acts, "OAlias "+kind)
								}
							}
							for j := range curLocalNames {
								if aliasingLocal(a, j) {
									if j == i {
										die("%s: a pooled local appended to itself", pos(rhs))
									}
									acts = append(acts, "OAlias "+localKind(j))
								}
							}
						}
						return acts
					}
				}
			case "make":
				return attach([]string{"OReplace " + k + " Fresh"})
			}
		}
	}
	die("%s: assignment to the pooled local %s outside the ownership grammar", pos(rhs), curLocalNames[i])
	return nil
}

func touchesField(n ast.Node) bool {
	for _, kind := range ownKindOrder {
		if e, ok := n.(ast.Expr); ok && aliasing(e, kind) {
			return true
		}
	}
	return false
}

var ownFuncs = []string{"clear", "collect", "escapeDispatch", "csiDispatch", "oscStart", "oscPut", "oscEnd", "hook", "put", "unhook", "apcUnhook", "apc"}

// pField returns the buffer kind if e is p.<field> (or p.dcs.Data / p.dcs.Intermediate => KDcs for writes)
func pField(e ast.Expr) (string, bool) {
	se, ok := e.(*ast.SelectorExpr)
	if !ok {
		return "", false
	}
	if id, ok := se.X.(*ast.Ident); ok && id.Name == "p" {
		k, ok := ownKinds[se.Sel.Name]
		return k, ok
	}
	return "", false
}

func isPDcsSub(e ast.Expr, sub string) bool {
	se, ok := e.(*ast.SelectorExpr)
	if !ok || se.Sel.Name != sub {
		return false
	}
	k, ok := pField(se.X)
	return ok && k == "KDcs"
}

func mentions(e ast.Expr, kind string) bool {
	found := false
	ast.Inspect(e, func(n ast.Node) bool {
		if x, ok := n.(ast.Expr); ok {
			if k, ok := pField(x); ok && k == kind {
				found = true
			}
		}
		return true
	})
	return found
}

func ownRHS(kind string, rhs ast.Expr) string {
	switch v := rhs.(type) {
	case *ast.SliceExpr:
		if k, ok := pField(v.X); ok && k == kind {
			return "OReplace " + kind + " Reslice"
		}
		if call, ok := v.X.(*ast.CallExpr); ok {
			if se, ok := call.Fun.(*ast.SelectorExpr); ok && se.Sel.Name == "Get" {
				return "OReplace " + kind + " PoolGet"
			}
		}
	case *ast.CallExpr:
		if id, ok := v.Fun.(*ast.Ident); ok {
			switch id.Name {
			case "append":
				if len(v.Args) >= 1 {
					if k, ok := pField(v.Args[0]); ok && k == kind {
						return "OWrite " + kind
					}
				}
			case "make":
				return "OReplace " + kind + " Fresh"
			}
		}
		if se, ok := v.Fun.(*ast.SelectorExpr); ok && se.Sel.Name == "Get" {
			return "OReplace " + kind + " PoolGet"
		}
	case *ast.CompositeLit:
		// a new value; it must not smuggle one of the parser's buffers in
		for k := range ownKinds {
			if mentions(v, ownKinds[k]) {
				die("%s: composite literal re-uses a parser buffer", pos(rhs))
			}
		}
		return "OReplace " + kind + " Fresh"
	}
	die("%s: assignment to a parser buffer outside the ownership grammar", pos(rhs))
	return ""
}

// aliasing reports whether e mentions the parser buffer of the given kind in a way that keeps a
// reference to its array: every mention except under len/cap/string(...) (which copy or only
// measure) and except as the operand of an index expression (an element read).
func aliasing(e ast.Expr, kind string) bool {
	found := false
	ast.Inspect(e, func(n ast.Node) bool {
		switch c := n.(type) {
		case *ast.CallExpr:
			if id, ok := c.Fun.(*ast.Ident); ok && (id.Name == "string" || id.Name == "len" || id.Name == "cap") {
				return false
			}
		case *ast.IndexExpr:
			return false
		}
		if x, ok := n.(ast.Expr); ok {
			if k, ok := pField(x); ok && k == kind {
				found = true
			}
		}
		return true
	})
	return found
}

var ownKindOrder = []string{"KInter", "KOsc", "KApc", "KDcs"}

// simpleActs: the ownership actions of one assignment / expression / declaration statement
func simpleActs(s ast.Stmt) []string {
	var out []string
	switch v := s.(type) {
	case *ast.AssignStmt:
		if len(v.Lhs) != 1 || len(v.Rhs) != 1 {
			for _, r := range v.Rhs {
				for _, kind := range ownKindOrder {
					if aliasing(r, kind) {
						die("%s: a parser buffer in a multi-value assignment", pos(s))
					}
				}
			}
			for _, l := range v.Lhs {
				if _, ok := pField(l); ok {
					die("%s: a parser buffer assigned in a multi-value assignment", pos(s))
				}
				if _, ok := lDes(l); ok {
					die("%s: a pooled local assigned in a multi-value assignment", pos(s))
				}
			}
			for _, r := range v.Rhs {
				if anyLocalAliased(r) {
					die("%s: a pooled local in a multi-value assignment", pos(s))
				}
			}
			return nil
		}
		lhs, rhs := v.Lhs[0], v.Rhs[0]
		if i, ok := lDes(lhs); ok {
			if v.Tok != token.ASSIGN && v.Tok != token.DEFINE {
				die("%s: compound assignment to a pooled local", pos(s))
			}
			return localRHS(i, rhs)
		}
		if anyLocalAliased(rhs) {
			die("%s: a pooled local is stored somewhere else than in the sequence under construction", pos(s))
		}
		if k, ok := pField(lhs); ok {
			if v.Tok != token.ASSIGN {
				die("%s: compound assignment to a parser buffer", pos(s))
			}
			return []string{ownRHS(k, rhs)}
		}
		if isPDcsSub(lhs, "Data") {
			// p.dcs.Data = append(p.dcs.Data, r)
			if call, ok := rhs.(*ast.CallExpr); ok {
				if id, ok := call.Fun.(*ast.Ident); ok && id.Name == "append" && len(call.Args) >= 1 && isPDcsSub(call.Args[0], "Data") {
					return []string{"OWrite KDcs"}
				}
			}
			die("%s: p.dcs.Data assigned outside the grammar", pos(s))
		}
		if ix, ok := lhs.(*ast.IndexExpr); ok {
			// p.buffer[i] = x : a write into the current array
			if k, ok := pField(ix.X); ok {
				out = append(out, "OWrite "+k)
			} else if isPDcsSub(ix.X, "Data") {
				out = append(out, "OWrite KDcs")
			} else if i, ok := lDes(ix.X); ok {
				out = append(out, "OWrite "+localKind(i))
			}
		}
		// X = ... p.buffer ... : the buffer is aliased into an outgoing (or pending) sequence,
		// also through a composite literal (csi := CSI{Intermediate: p.intermediate})
		for _, kind := range ownKindOrder {
			if aliasing(rhs, kind) {
				out = append(out, "OAlias "+kind)
			}
		}
	case *ast.ExprStmt:
		call, ok := v.X.(*ast.CallExpr)
		if !ok {
			return nil
		}
		se, ok := call.Fun.(*ast.SelectorExpr)
		if !ok || !isIdent(se.X, "p") || se.Sel.Name != "emit" || len(call.Args) != 1 {
			for _, kind := range ownKindOrder {
				if aliasing(v.X, kind) {
					die("%s: a parser buffer is passed to a call other than p.emit", pos(s))
				}
			}
			if anyLocalAliased(v.X) {
				die("%s: a pooled local is passed to a call other than p.emit", pos(s))
			}
			return nil
		}
		// string(p.apcData) copies; every other mention aliases
		for _, kind := range ownKindOrder {
			if aliasing(call.Args[0], kind) {
				out = append(out, "OAlias "+kind)
			}
		}
		for i := range curLocalNames {
			if aliasingLocal(call.Args[0], i) {
				out = append(out, "OAlias "+localKind(i))
			}
		}
		out = append(out, "OEmit")
	case *ast.DeclStmt:
		ast.Inspect(v, func(n ast.Node) bool {
			if e, ok := n.(ast.Expr); ok {
				for _, kind := range ownKindOrder {
					if aliasing(e, kind) {
						die("%s: a parser buffer in a declaration", pos(s))
					}
				}
				if anyLocalAliased(e) {
					die("%s: a pooled local in a declaration", pos(s))
				}
				return false
			}
			return true
		})
	}
	return out
}

// merged rendering: conditions ignored, textual order
func ownStmts(stmts []ast.Stmt, out *[]string) {
	for _, s := range stmts {
		switch v := s.(type) {
		case *ast.IfStmt:
			ownStmts(v.Body.List, out)
			if v.Else != nil {
				switch b := v.Else.(type) {
				case *ast.BlockStmt:
					ownStmts(b.List, out)
				case *ast.IfStmt:
					ownStmts([]ast.Stmt{b}, out)
				}
			}
		case *ast.ForStmt:
			ownStmts(v.Body.List, out)
		case *ast.RangeStmt:
			ownStmts(v.Body.List, out)
		case *ast.SwitchStmt:
			for _, c := range v.Body.List {
				ownStmts(c.(*ast.CaseClause).Body, out)
			}
		case *ast.BlockStmt:
			ownStmts(v.List, out)
		default:
			*out = append(*out, simpleActs(s)...)
		}
	}
}

// ---- path-sensitive rendering

// pathSet: the action lists of the ways through a statement list, by how they leave it
type pathSet struct {
	normal, returned, brk, cont [][]string
}

func dedup(ps [][]string) [][]string {
	seen := map[string]bool{}
	var out [][]string
	for _, p := range ps {
		k := strings.Join(p, ";")
		if !seen[k] {
			seen[k] = true
			out = append(out, p)
		}
	}
	return out
}

func cat(a, b []string) []string {
	out := make([]string, 0, len(a)+len(b))
	out = append(out, a...)
	return append(out, b...)
}

func allEmpty(ps [][]string) bool {
	for _, p := range ps {
		if len(p) > 0 {
			return false
		}
	}
	return true
}

// touches: the subtree mentions a parser buffer or calls p.emit
func touches(n ast.Node) bool {
	found := false
	ast.Inspect(n, func(n ast.Node) bool {
		if e, ok := n.(ast.Expr); ok {
			if _, ok := pField(e); ok {
				found = true
			}
			if _, ok := lDes(e); ok {
				found = true
			}
			if se, ok := e.(*ast.SelectorExpr); ok && isIdent(se.X, "p") && se.Sel.Name == "emit" {
				found = true
			}
		}
		return true
	})
	return found
}

func stmtPaths(s ast.Stmt) pathSet {
	switch v := s.(type) {
	case *ast.IfStmt:
		if v.Init != nil && touches(v.Init) {
			die("%s: if-initialiser touches a parser buffer", pos(s))
		}
		for _, kind := range ownKindOrder {
			if aliasing(v.Cond, kind) {
				die("%s: condition keeps a reference to a parser buffer", pos(s))
			}
		}
		if anyLocalAliased(v.Cond) {
			die("%s: condition keeps a reference to a pooled local", pos(s))
		}
		res := listPaths(v.Body.List)
		var els pathSet
		switch b := v.Else.(type) {
		case nil:
			els = pathSet{normal: [][]string{{}}}
		case *ast.BlockStmt:
			els = listPaths(b.List)
		case *ast.IfStmt:
			els = stmtPaths(b)
		default:
			die("%s: else branch outside the grammar", pos(s))
		}
		return pathSet{normal: dedup(append(res.normal, els.normal...)), returned: dedup(append(res.returned, els.returned...)),
			brk: dedup(append(res.brk, els.brk...)), cont: dedup(append(res.cont, els.cont...))}
	case *ast.ForStmt, *ast.RangeStmt:
		var body *ast.BlockStmt
		if f, ok := v.(*ast.ForStmt); ok {
			body = f.Body
			if (f.Init != nil && touches(f.Init)) || (f.Post != nil && touches(f.Post)) {
				die("%s: loop header touches a parser buffer", pos(s))
			}
			if f.Cond != nil {
				for _, kind := range ownKindOrder {
					if aliasing(f.Cond, kind) {
						die("%s: loop condition keeps a reference to a parser buffer", pos(s))
					}
				}
				if anyLocalAliased(f.Cond) {
					die("%s: loop condition keeps a reference to a pooled local", pos(s))
				}
			}
		} else {
			r := v.(*ast.RangeStmt)
			body = r.Body
			for _, kind := range ownKindOrder {
				if aliasing(r.X, kind) {
					die("%s: range over a parser buffer", pos(s))
				}
			}
			if anyLocalAliased(r.X) {
				die("%s: range over a pooled local", pos(s))
			}
		}
		b := listPaths(body.List)
		if allEmpty(b.normal) && allEmpty(b.brk) && allEmpty(b.cont) {
			return pathSet{normal: [][]string{{}}, returned: b.returned}
		}
		// iterations that go on perform ownership actions: a loop segment.  Any number of
		// iterations, each along any of the body's continuing paths, then the loop is left
		// normally, by an iteration that breaks, or by one that returns.
		bodies := dedup(append(append([][]string{}, b.normal...), b.cont...))
		for _, set := range [][][]string{bodies, b.brk, b.returned} {
			for _, p := range set {
				for _, a := range p {
					if isLoopTok(a) {
						die("%s: nested loops that perform ownership actions", pos(s))
					}
				}
			}
		}
		var rendered []string
		for _, p := range bodies {
			rendered = append(rendered, coqActs(p))
		}
		tok := "SLoop [" + strings.Join(rendered, "; ") + "]"
		res := pathSet{normal: [][]string{{tok}}}
		for _, x := range b.brk {
			res.normal = append(res.normal, cat([]string{tok}, x))
		}
		for _, x := range b.returned {
			res.returned = append(res.returned, cat([]string{tok}, x))
		}
		res.normal, res.returned = dedup(res.normal), dedup(res.returned)
		return res
	case *ast.SwitchStmt:
		if v.Init != nil && touches(v.Init) {
			die("%s: switch initialiser touches a parser buffer", pos(s))
		}
		res := pathSet{}
		hasDefault := false
		for _, c := range v.Body.List {
			cc := c.(*ast.CaseClause)
			if cc.List == nil {
				hasDefault = true
			}
			ps := listPaths(cc.Body)
			res.normal = append(res.normal, ps.normal...)
			res.normal = append(res.normal, ps.brk...)
			res.returned = append(res.returned, ps.returned...)
			res.cont = append(res.cont, ps.cont...)
		}
		if !hasDefault {
			res.normal = append(res.normal, []string{})
		}
		return pathSet{normal: dedup(res.normal), returned: dedup(res.returned), cont: dedup(res.cont)}
	case *ast.BlockStmt:
		return listPaths(v.List)
	case *ast.ReturnStmt:
		for _, r := range v.Results {
			if touches(r) {
				die("%s: a parser buffer is returned", pos(s))
			}
			if anyLocalAliased(r) {
				die("%s: a pooled local is returned", pos(s))
			}
		}
		return pathSet{returned: [][]string{{}}}
	case *ast.BranchStmt:
		if v.Label != nil {
			die("%s: labelled branch in a buffer-touching function", pos(s))
		}
		switch v.Tok {
		case token.BREAK:
			return pathSet{brk: [][]string{{}}}
		case token.CONTINUE:
			return pathSet{cont: [][]string{{}}}
		}
		die("%s: goto/fallthrough in a buffer-touching function", pos(s))
	case *ast.AssignStmt, *ast.ExprStmt, *ast.DeclStmt:
		return pathSet{normal: [][]string{simpleActs(s)}}
	case *ast.IncDecStmt, *ast.EmptyStmt:
		return pathSet{normal: [][]string{{}}}
	}
	if touches(s) {
		die("%s: statement kind outside the ownership grammar touches a parser buffer", pos(s))
	}
	return pathSet{normal: [][]string{{}}}
}

func listPaths(stmts []ast.Stmt) pathSet {
	res := pathSet{}
	cur := [][]string{{}}
	for _, s := range stmts {
		if len(cur) == 0 {
			break // unreachable code after return/break on every path
		}
		ps := stmtPaths(s)
		var next [][]string
		for _, pre := range cur {
			for _, x := range ps.returned {
				res.returned = append(res.returned, cat(pre, x))
			}
			for _, x := range ps.brk {
				res.brk = append(res.brk, cat(pre, x))
			}
			for _, x := range ps.cont {
				res.cont = append(res.cont, cat(pre, x))
			}
			for _, x := range ps.normal {
				next = append(next, cat(pre, x))
			}
		}
		cur = dedup(next)
		if len(cur) > 4096 {
			die("%s: more than 4096 paths", pos(s))
		}
	}
	res.normal = cur
	res.returned, res.brk, res.cont = dedup(res.returned), dedup(res.brk), dedup(res.cont)
	return res
}

func coqActs(acts []string) string { return "[" + strings.Join(acts, "; ") + "]" }

func isLoopTok(a string) bool { return strings.HasPrefix(a, "SLoop ") }

// noLoops: the path with every loop segment executed zero times
func noLoops(p []string) []string {
	out := []string{}
	for _, a := range p {
		if !isLoopTok(a) {
			out = append(out, a)
		}
	}
	return out
}

// coqSegs: the path as a list of segments
func coqSegs(p []string) string {
	var segs []string
	var run []string
	flush := func() {
		if len(run) > 0 {
			segs = append(segs, "SActs "+coqActs(run))
			run = nil
		}
	}
	for _, a := range p {
		if isLoopTok(a) {
			flush()
			segs = append(segs, a)
		} else {
			run = append(run, a)
		}
	}
	flush()
	return "[" + strings.Join(segs, "; ") + "]"
}

func init() {
	register("GenOwn", func(repo string) string {
		f := parseFile(filepath.Join(repo, "ansi", "parser.go"))
		var b strings.Builder
		b.WriteString("From Vx Require Import model.ParserOwnTypes.\n\n")
		var names, pnames, lnames []string
		for _, name := range ownFuncs {
			fd := findFunc(f, "Parser", name)
			if fd == nil {
				fd = findFunc(f, "", name)
			}
			if fd == nil {
				die("ansi/parser.go: function %s not found", name)
			}
			findLocals(name, fd.Body)
			if len(curLocalNames) > 0 {
				var ls []string
				for i, d := range curLocalNames {
					ls = append(ls, fmt.Sprintf("KLoc %d = %s", i, d))
				}
				fmt.Fprintf(&b, "(* %s: pooled locals %s *)\n", name, strings.Join(ls, ", "))
			}
			var acts []string
			ownStmts(fd.Body.List, &acts)
			fmt.Fprintf(&b, "Definition own_%s : list oact := [%s].\n", name, strings.Join(acts, "; "))
			names = append(names, "own_"+name)
			ps := listPaths(fd.Body.List)
			if len(ps.brk) > 0 || len(ps.cont) > 0 {
				die("ansi/parser.go: %s: break/continue outside a loop or switch", name)
			}
			all := dedup(append(ps.returned, ps.normal...))
			var flat [][]string
			var rendered, lrendered []string
			for _, p := range all {
				flat = append(flat, noLoops(p))
				lrendered = append(lrendered, coqSegs(p))
			}
			for _, p := range dedup(flat) {
				rendered = append(rendered, coqActs(p))
			}
			fmt.Fprintf(&b, "Definition paths_%s : list (list oact) := [%s].\n", name, strings.Join(rendered, "; "))
			fmt.Fprintf(&b, "Definition lpaths_%s : list (list oseg) := [%s].\n", name, strings.Join(lrendered, "; "))
			pnames = append(pnames, "paths_"+name)
			lnames = append(lnames, "lpaths_"+name)
		}
		fmt.Fprintf(&b, "\nDefinition own_all : list (list oact) := [%s].\n", strings.Join(names, "; "))
		fmt.Fprintf(&b, "\n(* one action list per control-flow path of each function, same order as own_all *)\nDefinition own_paths : list (list (list oact)) := [%s].\n", strings.Join(pnames, "; "))
		fmt.Fprintf(&b, "\n(* the same paths as segment lists: loops whose iterations perform ownership actions are SLoop segments *)\nDefinition own_lpaths : list (list (list oseg)) := [%s].\n", strings.Join(lnames, "; "))
		curLocals, curLocalNames = nil, nil
		// any other function that assigns one of the buffers is outside the table: refuse
		known := map[string]bool{}
		for _, n := range ownFuncs {
			known[n] = true
		}
		for _, d := range f.Decls {
			fd, ok := d.(*ast.FuncDecl)
			if !ok || fd.Body == nil || known[fd.Name.Name] || fd.Name.Name == "NewParser" {
				continue
			}
			ast.Inspect(fd.Body, func(n ast.Node) bool {
				if as, ok := n.(*ast.AssignStmt); ok {
					for _, l := range as.Lhs {
						if _, ok := pField(l); ok {
							die("ansi/parser.go: %s assigns a parser buffer but is not in the ownership table", fd.Name.Name)
						}
					}
				}
				if c, ok := n.(*ast.CallExpr); ok && isPoolGet(c) {
					die("ansi/parser.go: %s takes a buffer from a pool but is not in the ownership table", fd.Name.Name)
				}
				return true
			})
		}
		return b.String()
	})
}
