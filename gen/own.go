package main

import (
	"fmt"
	"go/ast"
	"go/token"
	"path/filepath"
	"strings"
)

// GenOwn: ansi/parser.go — for every function that touches one of the parser's
// reusable buffers (p.intermediate, p.oscData, p.apcData, p.dcs) the ordered list
// of ownership-relevant statements: a buffer is aliased into an outgoing
// sequence, a sequence is emitted, the parser's field is re-pointed (fresh
// allocation, a pool Get, or a reslice of the same array), the buffer is written.
// Conditions are ignored (statements of if-bodies are taken in order), which
// over-approximates what can happen in one call.
var ownKinds = map[string]string{"intermediate": "KInter", "oscData": "KOsc", "apcData": "KApc", "dcs": "KDcs"}

var ownFuncs = []string{"clear", "collect", "escapeDispatch", "csiDispatch", "oscStart", "oscPut", "oscEnd", "hook", "put", "unhook", "apcUnhook", "apc"}

// pField returns the buffer kind if e is p.<field> (or p.dcs.Data / p.dcs.Intermediate => KDcs for writes)
func pField(e ast.Expr) (string, bool) {
	se, ok := e.(*ast.SelectorExpr)
	if !ok {
		return "", false
	}
	if id, ok := se.X.(*ast.Ident); ok && id.Name == "p" {
		k, ok := ownKinds[se.Sel.Name]
		return k, ok
	}
	return "", false
}

func isPDcsSub(e ast.Expr, sub string) bool {
	se, ok := e.(*ast.SelectorExpr)
	if !ok || se.Sel.Name != sub {
		return false
	}
	k, ok := pField(se.X)
	return ok && k == "KDcs"
}

func mentions(e ast.Expr, kind string) bool {
	found := false
	ast.Inspect(e, func(n ast.Node) bool {
		if x, ok := n.(ast.Expr); ok {
			if k, ok := pField(x); ok && k == kind {
				found = true
			}
		}
		return true
	})
	return found
}

func ownRHS(kind string, rhs ast.Expr) string {
	switch v := rhs.(type) {
	case *ast.SliceExpr:
		if k, ok := pField(v.X); ok && k == kind {
			return "OReplace " + kind + " Reslice"
		}
		if call, ok := v.X.(*ast.CallExpr); ok {
			if se, ok := call.Fun.(*ast.SelectorExpr); ok && se.Sel.Name == "Get" {
				return "OReplace " + kind + " PoolGet"
			}
		}
	case *ast.CallExpr:
		if id, ok := v.Fun.(*ast.Ident); ok {
			switch id.Name {
			case "append":
				if len(v.Args) >= 1 {
					if k, ok := pField(v.Args[0]); ok && k == kind {
						return "OWrite " + kind
					}
				}
			case "make":
				return "OReplace " + kind + " Fresh"
			}
		}
		if se, ok := v.Fun.(*ast.SelectorExpr); ok && se.Sel.Name == "Get" {
			return "OReplace " + kind + " PoolGet"
		}
	case *ast.CompositeLit:
		// a new value; it must not smuggle one of the parser's buffers in
		for k := range ownKinds {
			if mentions(v, ownKinds[k]) {
				die("%s: composite literal re-uses a parser buffer", pos(rhs))
			}
		}
		return "OReplace " + kind + " Fresh"
	}
	die("%s: assignment to a parser buffer outside the ownership grammar", pos(rhs))
	return ""
}

func ownStmts(stmts []ast.Stmt, out *[]string) {
	for _, s := range stmts {
		switch v := s.(type) {
		case *ast.IfStmt:
			ownStmts(v.Body.List, out)
			if v.Else != nil {
				if b, ok := v.Else.(*ast.BlockStmt); ok {
					ownStmts(b.List, out)
				}
			}
		case *ast.ForStmt:
			ownStmts(v.Body.List, out)
		case *ast.RangeStmt:
			ownStmts(v.Body.List, out)
		case *ast.SwitchStmt:
			for _, c := range v.Body.List {
				ownStmts(c.(*ast.CaseClause).Body, out)
			}
		case *ast.BlockStmt:
			ownStmts(v.List, out)
		case *ast.AssignStmt:
			if len(v.Lhs) != 1 || len(v.Rhs) != 1 {
				continue
			}
			lhs, rhs := v.Lhs[0], v.Rhs[0]
			if k, ok := pField(lhs); ok {
				if v.Tok != token.ASSIGN {
					die("%s: compound assignment to a parser buffer", pos(s))
				}
				*out = append(*out, ownRHS(k, rhs))
				continue
			}
			if isPDcsSub(lhs, "Data") {
				// p.dcs.Data = append(p.dcs.Data, r)
				if call, ok := rhs.(*ast.CallExpr); ok {
					if id, ok := call.Fun.(*ast.Ident); ok && id.Name == "append" && len(call.Args) >= 1 && isPDcsSub(call.Args[0], "Data") {
						*out = append(*out, "OWrite KDcs")
						continue
					}
				}
				die("%s: p.dcs.Data assigned outside the grammar", pos(s))
			}
			// X.Field = p.buffer : the buffer is aliased into an outgoing (or pending) sequence
			for _, kind := range []string{"KInter", "KOsc", "KApc"} {
				if k, ok := pField(rhs); ok && k == kind {
					*out = append(*out, "OAlias "+kind)
				}
			}
		case *ast.ExprStmt:
			call, ok := v.X.(*ast.CallExpr)
			if !ok {
				continue
			}
			se, ok := call.Fun.(*ast.SelectorExpr)
			if !ok || !isIdent(se.X, "p") || se.Sel.Name != "emit" || len(call.Args) != 1 {
				continue
			}
			arg := call.Args[0]
			// string(p.apcData) copies; every other mention aliases
			for _, kind := range []string{"KInter", "KOsc", "KApc", "KDcs"} {
				aliased := false
				ast.Inspect(arg, func(n ast.Node) bool {
					if c, ok := n.(*ast.CallExpr); ok {
						if id, ok := c.Fun.(*ast.Ident); ok && id.Name == "string" {
							return false // conversion to string copies
						}
					}
					if x, ok := n.(ast.Expr); ok {
						if k, ok := pField(x); ok && k == kind {
							aliased = true
						}
					}
					return true
				})
				if aliased {
					*out = append(*out, "OAlias "+kind)
				}
			}
			*out = append(*out, "OEmit")
		}
	}
}

func init() {
	register("GenOwn", func(repo string) string {
		f := parseFile(filepath.Join(repo, "ansi", "parser.go"))
		var b strings.Builder
		b.WriteString("From Vx Require Import model.ParserOwnTypes.\n\n")
		var names []string
		for _, name := range ownFuncs {
			fd := findFunc(f, "Parser", name)
			if fd == nil {
				fd = findFunc(f, "", name)
			}
			if fd == nil {
				die("ansi/parser.go: function %s not found", name)
			}
			var acts []string
			ownStmts(fd.Body.List, &acts)
			fmt.Fprintf(&b, "Definition own_%s : list oact := [%s].\n", name, strings.Join(acts, "; "))
			names = append(names, "own_"+name)
		}
		fmt.Fprintf(&b, "\nDefinition own_all : list (list oact) := [%s].\n", strings.Join(names, "; "))
		// any other function that assigns one of the buffers is outside the table: refuse
		known := map[string]bool{}
		for _, n := range ownFuncs {
			known[n] = true
		}
		for _, d := range f.Decls {
			fd, ok := d.(*ast.FuncDecl)
			if !ok || fd.Body == nil || known[fd.Name.Name] || fd.Name.Name == "NewParser" {
				continue
			}
			ast.Inspect(fd.Body, func(n ast.Node) bool {
				if as, ok := n.(*ast.AssignStmt); ok {
					for _, l := range as.Lhs {
						if _, ok := pField(l); ok {
							die("ansi/parser.go: %s assigns a parser buffer but is not in the ownership table", fd.Name.Name)
						}
					}
				}
				return true
			})
		}
		return b.String()
	})
}
