package main

import (
	"fmt"
	"go/ast"
	"go/token"
	"path/filepath"
	"strings"
)

// GenOwn: ansi/parser.go — for every function that touches one of the parser's
// reusable buffers (p.intermediate, p.oscData, p.apcData, p.dcs) the ordered list
// of ownership-relevant statements: a buffer is aliased into an outgoing
// sequence, a sequence is emitted, the parser's field is re-pointed (fresh
// allocation, a pool Get, or a reslice of the same array), the buffer is written.
// Two renderings per function:
//   own_<f>   : one list, conditions ignored (statements of if-bodies taken in textual order) -
//               the coarse over-approximation of what one call can do;
//   paths_<f> : one list PER CONTROL-FLOW PATH from entry to a return (or the end of the body):
//               an if contributes its taken and its not-taken branch, a return ends the path, a
//               switch contributes one path per clause (plus "no clause" without a default), a
//               loop is accepted only when every iteration that goes on (falls out of the body,
//               continue, break) performs no ownership action - then the loop contributes
//               nothing, or the actions of an iteration that returns.  Conditions are not
//               evaluated (every branch combination is a path), so the set over-approximates
//               the feasible paths; what a merged list hides - an early return between the
//               emit and the re-pointing of the field - is a path of its own here.
var ownKinds = map[string]string{"intermediate": "KInter", "oscData": "KOsc", "apcData": "KApc", "dcs": "KDcs"}

var ownFuncs = []string{"clear", "collect", "escapeDispatch", "csiDispatch", "oscStart", "oscPut", "oscEnd", "hook", "put", "unhook", "apcUnhook", "apc"}

// pField returns the buffer kind if e is p.<field> (or p.dcs.Data / p.dcs.Intermediate => KDcs for writes)
func pField(e ast.Expr) (string, bool) {
	se, ok := e.(*ast.SelectorExpr)
	if !ok {
		return "", false
	}
	if id, ok := se.X.(*ast.Ident); ok && id.Name == "p" {
		k, ok := ownKinds[se.Sel.Name]
		return k, ok
	}
	return "", false
}

func isPDcsSub(e ast.Expr, sub string) bool {
	se, ok := e.(*ast.SelectorExpr)
	if !ok || se.Sel.Name != sub {
		return false
	}
	k, ok := pField(se.X)
	return ok && k == "KDcs"
}

func mentions(e ast.Expr, kind string) bool {
	found := false
	ast.Inspect(e, func(n ast.Node) bool {
		if x, ok := n.(ast.Expr); ok {
			if k, ok := pField(x); ok && k == kind {
				found = true
			}
		}
		return true
	})
	return found
}

func ownRHS(kind string, rhs ast.Expr) string {
	switch v := rhs.(type) {
	case *ast.SliceExpr:
		if k, ok := pField(v.X); ok && k == kind {
			return "OReplace " + kind + " Reslice"
		}
		if call, ok := v.X.(*ast.CallExpr); ok {
			if se, ok := call.Fun.(*ast.SelectorExpr); ok && se.Sel.Name == "Get" {
				return "OReplace " + kind + " PoolGet"
			}
		}
	case *ast.CallExpr:
		if id, ok := v.Fun.(*ast.Ident); ok {
			switch id.Name {
			case "append":
				if len(v.Args) >= 1 {
					if k, ok := pField(v.Args[0]); ok && k == kind {
						return "OWrite " + kind
					}
				}
			case "make":
				return "OReplace " + kind + " Fresh"
			}
		}
		if se, ok := v.Fun.(*ast.SelectorExpr); ok && se.Sel.Name == "Get" {
			return "OReplace " + kind + " PoolGet"
		}
	case *ast.CompositeLit:
		// a new value; it must not smuggle one of the parser's buffers in
		for k := range ownKinds {
			if mentions(v, ownKinds[k]) {
				die("%s: composite literal re-uses a parser buffer", pos(rhs))
			}
		}
		return "OReplace " + kind + " Fresh"
	}
	die("%s: assignment to a parser buffer outside the ownership grammar", pos(rhs))
	return ""
}

// aliasing reports whether e mentions the parser buffer of the given kind in a way that keeps a
// reference to its array: every mention except under len/cap/string(...) (which copy or only
// measure) and except as the operand of an index expression (an element read).
func aliasing(e ast.Expr, kind string) bool {
	found := false
	ast.Inspect(e, func(n ast.Node) bool {
		switch c := n.(type) {
		case *ast.CallExpr:
			if id, ok := c.Fun.(*ast.Ident); ok && (id.Name == "string" || id.Name == "len" || id.Name == "cap") {
				return false
			}
		case *ast.IndexExpr:
			return false
		}
		if x, ok := n.(ast.Expr); ok {
			if k, ok := pField(x); ok && k == kind {
				found = true
			}
		}
		return true
	})
	return found
}

var ownKindOrder = []string{"KInter", "KOsc", "KApc", "KDcs"}

// simpleActs: the ownership actions of one assignment / expression / declaration statement
func simpleActs(s ast.Stmt) []string {
	var out []string
	switch v := s.(type) {
	case *ast.AssignStmt:
		if len(v.Lhs) != 1 || len(v.Rhs) != 1 {
			for _, r := range v.Rhs {
				for _, kind := range ownKindOrder {
					if aliasing(r, kind) {
						die("%s: a parser buffer in a multi-value assignment", pos(s))
					}
				}
			}
			for _, l := range v.Lhs {
				if _, ok := pField(l); ok {
					die("%s: a parser buffer assigned in a multi-value assignment", pos(s))
				}
			}
			return nil
		}
		lhs, rhs := v.Lhs[0], v.Rhs[0]
		if k, ok := pField(lhs); ok {
			if v.Tok != token.ASSIGN {
				die("%s: compound assignment to a parser buffer", pos(s))
			}
			return []string{ownRHS(k, rhs)}
		}
		if isPDcsSub(lhs, "Data") {
			// p.dcs.Data = append(p.dcs.Data, r)
			if call, ok := rhs.(*ast.CallExpr); ok {
				if id, ok := call.Fun.(*ast.Ident); ok && id.Name == "append" && len(call.Args) >= 1 && isPDcsSub(call.Args[0], "Data") {
					return []string{"OWrite KDcs"}
				}
			}
			die("%s: p.dcs.Data assigned outside the grammar", pos(s))
		}
		if ix, ok := lhs.(*ast.IndexExpr); ok {
			// p.buffer[i] = x : a write into the current array
			if k, ok := pField(ix.X); ok {
				out = append(out, "OWrite "+k)
			} else if isPDcsSub(ix.X, "Data") {
				out = append(out, "OWrite KDcs")
			}
		}
		// X = ... p.buffer ... : the buffer is aliased into an outgoing (or pending) sequence,
		// also through a composite literal (csi := CSI{Intermediate: p.intermediate})
		for _, kind := range ownKindOrder {
			if aliasing(rhs, kind) {
				out = append(out, "OAlias "+kind)
			}
		}
	case *ast.ExprStmt:
		call, ok := v.X.(*ast.CallExpr)
		if !ok {
			return nil
		}
		se, ok := call.Fun.(*ast.SelectorExpr)
		if !ok || !isIdent(se.X, "p") || se.Sel.Name != "emit" || len(call.Args) != 1 {
			for _, kind := range ownKindOrder {
				if aliasing(v.X, kind) {
					die("%s: a parser buffer is passed to a call other than p.emit", pos(s))
				}
			}
			return nil
		}
		// string(p.apcData) copies; every other mention aliases
		for _, kind := range ownKindOrder {
			if aliasing(call.Args[0], kind) {
				out = append(out, "OAlias "+kind)
			}
		}
		out = append(out, "OEmit")
	case *ast.DeclStmt:
		ast.Inspect(v, func(n ast.Node) bool {
			if e, ok := n.(ast.Expr); ok {
				for _, kind := range ownKindOrder {
					if aliasing(e, kind) {
						die("%s: a parser buffer in a declaration", pos(s))
					}
				}
				return false
			}
			return true
		})
	}
	return out
}

// merged rendering: conditions ignored, textual order
func ownStmts(stmts []ast.Stmt, out *[]string) {
	for _, s := range stmts {
		switch v := s.(type) {
		case *ast.IfStmt:
			ownStmts(v.Body.List, out)
			if v.Else != nil {
				switch b := v.Else.(type) {
				case *ast.BlockStmt:
					ownStmts(b.List, out)
				case *ast.IfStmt:
					ownStmts([]ast.Stmt{b}, out)
				}
			}
		case *ast.ForStmt:
			ownStmts(v.Body.List, out)
		case *ast.RangeStmt:
			ownStmts(v.Body.List, out)
		case *ast.SwitchStmt:
			for _, c := range v.Body.List {
				ownStmts(c.(*ast.CaseClause).Body, out)
			}
		case *ast.BlockStmt:
			ownStmts(v.List, out)
		default:
			*out = append(*out, simpleActs(s)...)
		}
	}
}

// ---- path-sensitive rendering

// pathSet: the action lists of the ways through a statement list, by how they leave it
type pathSet struct {
	normal, returned, brk, cont [][]string
}

func dedup(ps [][]string) [][]string {
	seen := map[string]bool{}
	var out [][]string
	for _, p := range ps {
		k := strings.Join(p, ";")
		if !seen[k] {
			seen[k] = true
			out = append(out, p)
		}
	}
	return out
}

func cat(a, b []string) []string {
	out := make([]string, 0, len(a)+len(b))
	out = append(out, a...)
	return append(out, b...)
}

func allEmpty(ps [][]string) bool {
	for _, p := range ps {
		if len(p) > 0 {
			return false
		}
	}
	return true
}

// touches: the subtree mentions a parser buffer or calls p.emit
func touches(n ast.Node) bool {
	found := false
	ast.Inspect(n, func(n ast.Node) bool {
		if e, ok := n.(ast.Expr); ok {
			if _, ok := pField(e); ok {
				found = true
			}
			if se, ok := e.(*ast.SelectorExpr); ok && isIdent(se.X, "p") && se.Sel.Name == "emit" {
				found = true
			}
		}
		return true
	})
	return found
}

func stmtPaths(s ast.Stmt) pathSet {
	switch v := s.(type) {
	case *ast.IfStmt:
		if v.Init != nil && touches(v.Init) {
			die("%s: if-initialiser touches a parser buffer", pos(s))
		}
		for _, kind := range ownKindOrder {
			if aliasing(v.Cond, kind) {
				die("%s: condition keeps a reference to a parser buffer", pos(s))
			}
		}
		res := listPaths(v.Body.List)
		var els pathSet
		switch b := v.Else.(type) {
		case nil:
			els = pathSet{normal: [][]string{{}}}
		case *ast.BlockStmt:
			els = listPaths(b.List)
		case *ast.IfStmt:
			els = stmtPaths(b)
		default:
			die("%s: else branch outside the grammar", pos(s))
		}
		return pathSet{normal: dedup(append(res.normal, els.normal...)), returned: dedup(append(res.returned, els.returned...)),
			brk: dedup(append(res.brk, els.brk...)), cont: dedup(append(res.cont, els.cont...))}
	case *ast.ForStmt, *ast.RangeStmt:
		var body *ast.BlockStmt
		if f, ok := v.(*ast.ForStmt); ok {
			body = f.Body
			if (f.Init != nil && touches(f.Init)) || (f.Post != nil && touches(f.Post)) {
				die("%s: loop header touches a parser buffer", pos(s))
			}
			if f.Cond != nil {
				for _, kind := range ownKindOrder {
					if aliasing(f.Cond, kind) {
						die("%s: loop condition keeps a reference to a parser buffer", pos(s))
					}
				}
			}
		} else {
			r := v.(*ast.RangeStmt)
			body = r.Body
			for _, kind := range ownKindOrder {
				if aliasing(r.X, kind) {
					die("%s: range over a parser buffer", pos(s))
				}
			}
		}
		b := listPaths(body.List)
		if !allEmpty(b.normal) || !allEmpty(b.brk) || !allEmpty(b.cont) {
			die("%s: a loop iteration that goes on performs ownership actions (paths would be unbounded)", pos(s))
		}
		return pathSet{normal: [][]string{{}}, returned: b.returned}
	case *ast.SwitchStmt:
		if v.Init != nil && touches(v.Init) {
			die("%s: switch initialiser touches a parser buffer", pos(s))
		}
		res := pathSet{}
		hasDefault := false
		for _, c := range v.Body.List {
			cc := c.(*ast.CaseClause)
			if cc.List == nil {
				hasDefault = true
			}
			ps := listPaths(cc.Body)
			res.normal = append(res.normal, ps.normal...)
			res.normal = append(res.normal, ps.brk...)
			res.returned = append(res.returned, ps.returned...)
			res.cont = append(res.cont, ps.cont...)
		}
		if !hasDefault {
			res.normal = append(res.normal, []string{})
		}
		return pathSet{normal: dedup(res.normal), returned: dedup(res.returned), cont: dedup(res.cont)}
	case *ast.BlockStmt:
		return listPaths(v.List)
	case *ast.ReturnStmt:
		for _, r := range v.Results {
			if touches(r) {
				die("%s: a parser buffer is returned", pos(s))
			}
		}
		return pathSet{returned: [][]string{{}}}
	case *ast.BranchStmt:
		if v.Label != nil {
			die("%s: labelled branch in a buffer-touching function", pos(s))
		}
		switch v.Tok {
		case token.BREAK:
			return pathSet{brk: [][]string{{}}}
		case token.CONTINUE:
			return pathSet{cont: [][]string{{}}}
		}
		die("%s: goto/fallthrough in a buffer-touching function", pos(s))
	case *ast.AssignStmt, *ast.ExprStmt, *ast.DeclStmt:
		return pathSet{normal: [][]string{simpleActs(s)}}
	case *ast.IncDecStmt, *ast.EmptyStmt:
		return pathSet{normal: [][]string{{}}}
	}
	if touches(s) {
		die("%s: statement kind outside the ownership grammar touches a parser buffer", pos(s))
	}
	return pathSet{normal: [][]string{{}}}
}

func listPaths(stmts []ast.Stmt) pathSet {
	res := pathSet{}
	cur := [][]string{{}}
	for _, s := range stmts {
		if len(cur) == 0 {
			break // unreachable code after return/break on every path
		}
		ps := stmtPaths(s)
		var next [][]string
		for _, pre := range cur {
			for _, x := range ps.returned {
				res.returned = append(res.returned, cat(pre, x))
			}
			for _, x := range ps.brk {
				res.brk = append(res.brk, cat(pre, x))
			}
			for _, x := range ps.cont {
				res.cont = append(res.cont, cat(pre, x))
			}
			for _, x := range ps.normal {
				next = append(next, cat(pre, x))
			}
		}
		cur = dedup(next)
		if len(cur) > 4096 {
			die("%s: more than 4096 paths", pos(s))
		}
	}
	res.normal = cur
	res.returned, res.brk, res.cont = dedup(res.returned), dedup(res.brk), dedup(res.cont)
	return res
}

func coqActs(acts []string) string { return "[" + strings.Join(acts, "; ") + "]" }

func init() {
	register("GenOwn", func(repo string) string {
		f := parseFile(filepath.Join(repo, "ansi", "parser.go"))
		var b strings.Builder
		b.WriteString("From Vx Require Import model.ParserOwnTypes.\n\n")
		var names, pnames []string
		for _, name := range ownFuncs {
			fd := findFunc(f, "Parser", name)
			if fd == nil {
				fd = findFunc(f, "", name)
			}
			if fd == nil {
				die("ansi/parser.go: function %s not found", name)
			}
			var acts []string
			ownStmts(fd.Body.List, &acts)
			fmt.Fprintf(&b, "Definition own_%s : list oact := [%s].\n", name, strings.Join(acts, "; "))
			names = append(names, "own_"+name)
			ps := listPaths(fd.Body.List)
			if len(ps.brk) > 0 || len(ps.cont) > 0 {
				die("ansi/parser.go: %s: break/continue outside a loop or switch", name)
			}
			all := dedup(append(ps.returned, ps.normal...))
			var rendered []string
			for _, p := range all {
				rendered = append(rendered, coqActs(p))
			}
			fmt.Fprintf(&b, "Definition paths_%s : list (list oact) := [%s].\n", name, strings.Join(rendered, "; "))
			pnames = append(pnames, "paths_"+name)
		}
		fmt.Fprintf(&b, "\nDefinition own_all : list (list oact) := [%s].\n", strings.Join(names, "; "))
		fmt.Fprintf(&b, "\n(* one action list per control-flow path of each function, same order as own_all *)\nDefinition own_paths : list (list (list oact)) := [%s].\n", strings.Join(pnames, "; "))
		// any other function that assigns one of the buffers is outside the table: refuse
		known := map[string]bool{}
		for _, n := range ownFuncs {
			known[n] = true
		}
		for _, d := range f.Decls {
			fd, ok := d.(*ast.FuncDecl)
			if !ok || fd.Body == nil || known[fd.Name.Name] || fd.Name.Name == "NewParser" {
				continue
			}
			ast.Inspect(fd.Body, func(n ast.Node) bool {
				if as, ok := n.(*ast.AssignStmt); ok {
					for _, l := range as.Lhs {
						if _, ok := pField(l); ok {
							die("ansi/parser.go: %s assigns a parser buffer but is not in the ownership table", fd.Name.Name)
						}
					}
				}
				return true
			})
		}
		return b.String()
	})
}
