package main

import (
	"fmt"
	"go/ast"
	"go/token"
	"path/filepath"
	"strconv"
	"strings"
)

// GenKeys (property C09): key.go
//   - every constant of the const blocks that declare Mod*, Event*, Key* and
//     `extended` (iota blocks are evaluated),
//   - `var specialsKeys = map[specialKey]rune{{n, 'f'}: KeyX, ...}` -> list ((Z*Z)*Z),
//   - `var keyNames = []keyName{{KeyX, "Name"}, ...}` -> list (Z * list Z),
//   - the SS3 table of decodeKey (`case ansi.SS3: switch rune(seq) { case 'A': key.Keycode = KeyUp ...`)
//     -> list (Z*Z).
//
// Anything outside this grammar makes the translator die.

type keysEnv struct {
	vals  map[string]int64
	order []string
}

func (e *keysEnv) eval(x ast.Expr, iota int64) int64 {
	switch v := x.(type) {
	case *ast.BasicLit:
		n, ok := intLit(v)
		if !ok {
			die("key.go: unsupported literal %s in constant expression", v.Value)
		}
		return n
	case *ast.ParenExpr:
		return e.eval(v.X, iota)
	case *ast.Ident:
		if v.Name == "iota" {
			return iota
		}
		n, ok := e.vals[v.Name]
		if !ok {
			die("key.go: constant expression refers to unknown identifier %s", v.Name)
		}
		return n
	case *ast.SelectorExpr:
		if id, ok := v.X.(*ast.Ident); ok && id.Name == "unicode" && v.Sel.Name == "MaxRune" {
			return 0x10FFFF
		}
		die("key.go: unsupported selector in constant expression")
	case *ast.BinaryExpr:
		a, b := e.eval(v.X, iota), e.eval(v.Y, iota)
		switch v.Op {
		case token.ADD:
			return a + b
		case token.SUB:
			return a - b
		case token.SHL:
			return a << uint(b)
		case token.OR:
			return a | b
		}
		die("key.go: unsupported operator %s in constant expression", v.Op)
	}
	die("key.go: unsupported constant expression %T", x)
	return 0
}

func keysConsts(f *ast.File) *keysEnv {
	env := &keysEnv{vals: map[string]int64{}}
	for _, d := range f.Decls {
		gd, ok := d.(*ast.GenDecl)
		if !ok || gd.Tok != token.CONST {
			continue
		}
		var last []ast.Expr
		for i, s := range gd.Specs {
			vs := s.(*ast.ValueSpec)
			if len(vs.Values) > 0 {
				last = vs.Values
			}
			if len(last) != len(vs.Names) {
				die("key.go: const spec %s has no usable value expression", vs.Names[0].Name)
			}
			for j, n := range vs.Names {
				if n.Name == "_" {
					continue
				}
				env.vals[n.Name] = env.eval(last[j], int64(i))
				env.order = append(env.order, n.Name)
			}
		}
	}
	return env
}

func keysCoqString(s string) string {
	var parts []string
	for _, r := range s {
		parts = append(parts, strconv.FormatInt(int64(r), 10))
	}
	return "[" + strings.Join(parts, "; ") + "]"
}

func init() {
	register("GenKeys", func(repo string) string {
		f := parseFile(filepath.Join(repo, "key.go"))
		env := keysConsts(f)
		var b strings.Builder
		n := 0
		for _, name := range env.order {
			if strings.HasPrefix(name, "Key") || strings.HasPrefix(name, "Mod") || strings.HasPrefix(name, "Event") || name == "extended" {
				fmt.Fprintf(&b, "Definition %s : Z := %s.\n", name, coqZ(env.vals[name]))
				n++
			}
		}
		if n < 100 {
			die("key.go: only %d Key*/Mod*/Event* constants found", n)
		}
		// all Key* constants as a table (name, value), in declaration order
		b.WriteString("\nDefinition keyConsts : list (list Z * Z) :=\n  [")
		first := true
		for _, name := range env.order {
			if !strings.HasPrefix(name, "Key") {
				continue
			}
			if !first {
				b.WriteString(";\n   ")
			}
			first = false
			fmt.Fprintf(&b, "(%s, %s)", keysCoqString(name), name)
		}
		b.WriteString("].\n")

		// specialsKeys
		e := findVar(f, "specialsKeys")
		cl, ok := e.(*ast.CompositeLit)
		if !ok {
			die("key.go: specialsKeys is not a composite literal")
		}
		if _, ok := cl.Type.(*ast.MapType); !ok {
			die("key.go: specialsKeys is not a map literal")
		}
		b.WriteString("\nDefinition specialsKeys : list ((Z * Z) * Z) :=\n  [")
		for i, el := range cl.Elts {
			kv, ok := el.(*ast.KeyValueExpr)
			if !ok {
				die("key.go: specialsKeys element %d is not key: value", i)
			}
			k, ok := kv.Key.(*ast.CompositeLit)
			if !ok || len(k.Elts) != 2 {
				die("key.go: specialsKeys key %d is not {keycode, final}", i)
			}
			if _, ok := k.Elts[0].(*ast.KeyValueExpr); ok {
				die("key.go: specialsKeys key %d uses field names", i)
			}
			code := env.eval(k.Elts[0], 0)
			fin := env.eval(k.Elts[1], 0)
			id, ok := kv.Value.(*ast.Ident)
			if !ok {
				die("key.go: specialsKeys value %d is not a constant name", i)
			}
			if _, ok := env.vals[id.Name]; !ok {
				die("key.go: specialsKeys value %s is not a known constant", id.Name)
			}
			if i > 0 {
				b.WriteString(";\n   ")
			}
			fmt.Fprintf(&b, "((%s, %s), %s)", coqZ(code), coqZ(fin), id.Name)
		}
		b.WriteString("].\n")

		// keyNames
		e = findVar(f, "keyNames")
		cl, ok = e.(*ast.CompositeLit)
		if !ok {
			die("key.go: keyNames is not a composite literal")
		}
		b.WriteString("\nDefinition keyNames : list (Z * list Z) :=\n  [")
		for i, el := range cl.Elts {
			k, ok := el.(*ast.CompositeLit)
			if !ok || len(k.Elts) != 2 {
				die("key.go: keyNames element %d is not {key, name}", i)
			}
			id, ok := k.Elts[0].(*ast.Ident)
			if !ok {
				die("key.go: keyNames element %d key is not a constant name", i)
			}
			if _, ok := env.vals[id.Name]; !ok {
				die("key.go: keyNames key %s is not a known constant", id.Name)
			}
			lit, ok := k.Elts[1].(*ast.BasicLit)
			if !ok || lit.Kind != token.STRING {
				die("key.go: keyNames element %d name is not a string literal", i)
			}
			s, err := strconv.Unquote(lit.Value)
			if err != nil {
				die("key.go: keyNames element %d: %v", i, err)
			}
			if i > 0 {
				b.WriteString(";\n   ")
			}
			fmt.Fprintf(&b, "(%s, %s)", id.Name, keysCoqString(s))
		}
		b.WriteString("].\n")

		// the SS3 switch of decodeKey
		fd := findFunc(f, "", "decodeKey")
		if fd == nil {
			die("key.go: decodeKey not found")
		}
		var ss3 []string
		found := false
		ast.Inspect(fd.Body, func(nd ast.Node) bool {
			cc, ok := nd.(*ast.CaseClause)
			if !ok || len(cc.List) != 1 {
				return true
			}
			sel, ok := cc.List[0].(*ast.SelectorExpr)
			if !ok || sel.Sel.Name != "SS3" {
				return true
			}
			found = true
			if len(cc.Body) != 1 {
				die("key.go: decodeKey case ansi.SS3 is not a single switch")
			}
			sw, ok := cc.Body[0].(*ast.SwitchStmt)
			if !ok {
				die("key.go: decodeKey case ansi.SS3 is not a switch")
			}
			call, ok := sw.Tag.(*ast.CallExpr)
			if !ok || len(call.Args) != 1 {
				die("key.go: decodeKey SS3 switch tag is not rune(seq)")
			}
			if id, ok := call.Fun.(*ast.Ident); !ok || id.Name != "rune" {
				die("key.go: decodeKey SS3 switch tag is not rune(seq)")
			}
			for _, st := range sw.Body.List {
				c := st.(*ast.CaseClause)
				if len(c.List) != 1 || len(c.Body) != 1 {
					die("key.go: decodeKey SS3 case outside the grammar (one value, one assignment)")
				}
				fin := env.eval(c.List[0], 0)
				as, ok := c.Body[0].(*ast.AssignStmt)
				if !ok || len(as.Lhs) != 1 || len(as.Rhs) != 1 || as.Tok != token.ASSIGN {
					die("key.go: decodeKey SS3 case body is not key.Keycode = KeyX")
				}
				lhs, ok := as.Lhs[0].(*ast.SelectorExpr)
				if !ok || lhs.Sel.Name != "Keycode" {
					die("key.go: decodeKey SS3 case body is not key.Keycode = KeyX")
				}
				id, ok := as.Rhs[0].(*ast.Ident)
				if !ok {
					die("key.go: decodeKey SS3 case body is not key.Keycode = KeyX")
				}
				if _, ok := env.vals[id.Name]; !ok {
					die("key.go: decodeKey SS3 case assigns unknown constant %s", id.Name)
				}
				ss3 = append(ss3, fmt.Sprintf("(%s, %s)", coqZ(fin), id.Name))
			}
			return false
		})
		if !found {
			die("key.go: decodeKey has no case ansi.SS3")
		}
		fmt.Fprintf(&b, "\nDefinition ss3Keys : list (Z * Z) :=\n  [%s].\n", strings.Join(ss3, "; "))
		return b.String()
	})
}
