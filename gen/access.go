package main

// GenAccess (property C10): the field-access table for the lock-set argument.
//
// For every field of the structs vaxis.Vaxis, vaxis.writer and ansi.Parser this
// rule lists every syntactic access site in the non-test, non-verif sources of
// the two packages (as built for linux): the function containing it, the kind
// of access, the locks syntactically held at that point, the source line.  It
// also emits the raw facts the analysis in coq/model/Conc.v needs: the syntactic
// call graph (with the locks held at each call site), the hand-written entry
// point table (role -> function) and the role concurrency relation.  The
// analysis itself (role closure, entry lock sets, the pairwise check) is done in
// Gallina, not here.
//
// The sources are type-checked with go/types (source importer), so a selector
// is attributed to a struct field by the type checker, not by its spelling.
//
// Access kinds
//   0 R  plain read of the field slot (also: passing the value on, calling a
//        read-only method such as bytes.Buffer.Len, any method of an interface
//        valued field such as console.Console — what the foreign object does is
//        the foreign object's business)
//   1 W  plain write of the slot, of a sub-field/element of it, or an
//        unsynchronised mutation of the object the slot owns (map/slice element
//        assignment, assignment through the pointer, a method call that may
//        mutate: every method not white-listed below)
//   2 A  access to the slot through sync/atomic or atomicLoad/atomicStore
//   3 C  channel operation on a channel-valued field (send, receive, close,
//        len, range, select), or a method call on an internally synchronised
//        object (time.Timer.Stop, the sync.Pool wrappers of ansi/pool.go); the
//        slot itself is only read
// Lock/Unlock calls on the three mutexes are the synchronisation itself and are
// not sites.
//
// Lock tracking: X.Lock() adds, X.Unlock() removes, `defer X.Unlock()` keeps
// the lock to the end of the function; compound statements are walked with a
// copy and joined by intersection over the branches that fall through; a loop
// body must end with the lock set it started with (else: die).  A deferred
// call runs with the locks that are held at registration *and* released only by
// an earlier `defer Unlock`.
//
// Call graph: static calls resolved by the type checker; calls through function
// values go to every address-taken function/literal of the same package with
// an identical signature; a call of an interface method goes to every method of
// that name of an in-package type implementing the interface; passing a value
// of an in-package type where an interface is expected adds edges to the
// methods that interface (or fmt's Stringer/Formatter/error probes) can reach.
//
// What this does not see (stated in the evidence): reflection, unsafe, cgo,
// code outside the two packages (vxfw, widgets) touching these structs — there
// is none, all fields are unexported —, several Vaxis instances (locks are
// identified by field, not by instance).

import (
	"fmt"
	"go/ast"
	"go/build"
	"go/importer"
	"go/parser"
	"go/token"
	"go/types"
	"os"
	"path/filepath"
	"sort"
	"strings"
)

// ---------------------------------------------------------------- hand-written tables

const accModule = "git.sr.ht/~rockorager/vaxis"

// tracked structs (package path suffix, type name) and the three locks
var accTracked = [][2]string{{"", "Vaxis"}, {"", "writer"}, {"/ansi", "Parser"}}
var accLocks = []string{"Vaxis.mu", "writer.mut", "Parser.mu"} // lock id = index+1

// Roles.  A role is a kind of goroutine (or a phase of one).
const (
	accRoleInitPre  = 0 // constructor code before any goroutine exists (New up to openTty, NewParser up to `go run`, newWriter)
	accRoleInitPost = 1 // the rest of vaxis.New: runs while the input/parser/timer goroutines exist, but before *Vaxis is handed to the application
	accRoleMain     = 2 // the application's main goroutine: every exported function not listed under another role
	accRoleInput    = 3 // the input goroutine started by openTty (includes its SIGWINCH/kill-signal and recover() paths)
	accRolePoster   = 4 // any other application goroutine using the API documented for that: PostEvent, PostEventBlocking, SyncFunc, Resize, Query*
	accRoleParser   = 5 // ansi.Parser.run
	accRoleTimer    = 6 // the ESC time.AfterFunc callback in ansi.anywhere
	accRoleSigClose = 7 // signal/panic path: Vaxis.Close called from a goroutine other than main (input goroutine on a kill signal or panic; widgets/spinner's recover handler)
	accRoleEncoder  = 8 // goroutines started by KittyImage.Resize / Sixel.Resize
	accRoleUnknown  = 9 // any `go` target or callback handed to foreign code that is not listed here (conservative catch-all)
)

var accRoleNames = []string{"init-pre", "init-post", "main", "input", "poster", "parser", "timer", "sigclose", "encoder", "unknown"}

// accMulti: roles of which several instances may run at once.  The input
// goroutine is among them: Suspend waits for the parser's run loop, not for the
// input goroutine, so after Resume the previous one can still be alive (blocked in
// PostEventBlocking on a full queue) next to the new one — seen by the race detector.
var accMulti = map[int]bool{accRoleInput: true, accRolePoster: true, accRoleTimer: true, accRoleEncoder: true, accRoleUnknown: true}

// accConc says whether two different roles may run concurrently.
//
//	init-pre: with nothing (the `go` statement orders it before everything).
//	init-post: only with the goroutines New itself started (input, parser,
//	  timer) and the signal path; the application has no *Vaxis yet.
//	everything else: pairwise concurrent.
func accConc(a, b int) bool {
	if a == b {
		return accMulti[a]
	}
	if a == accRoleInitPre || b == accRoleInitPre {
		return false
	}
	if a == accRoleInitPost || b == accRoleInitPost {
		o := a + b - accRoleInitPost
		return o == accRoleInput || o == accRoleParser || o == accRoleTimer || o == accRoleSigClose || o == accRoleUnknown
	}
	return true
}

// accEntries: role -> entry functions (keys as printed in fn_names).  The main
// role additionally gets every exported function/method of both packages that
// is not an entry of the poster role (documentation: only PostEvent*, SyncFunc,
// Resize (“manually triggers”), Query* (“not in the same goroutine as Vaxis runs
// in”) are for other goroutines; ansi.Parser's exported API is used by whoever
// owns the parser: listed under input/main below).
var accEntries = map[int][]string{
	accRoleInitPost: {"vaxis.New"},
	accRoleInput:    {"vaxis.Vaxis.openTty$1"},
	accRolePoster: {"vaxis.Vaxis.PostEvent", "vaxis.Vaxis.PostEventBlocking", "vaxis.Vaxis.SyncFunc", "vaxis.Vaxis.Resize",
		"vaxis.Vaxis.QueryColor", "vaxis.Vaxis.QueryForeground", "vaxis.Vaxis.QueryBackground"},
	accRoleParser:   {"ansi.Parser.run"},
	accRoleTimer:    {"ansi.anywhere$1"},
	accRoleSigClose: {"vaxis.Vaxis.Close"},
	accRoleEncoder:  {"vaxis.KittyImage.Resize$1", "vaxis.Sixel.Resize$1"},
}

// constructors: direct sites in these functions before their first
// goroutine-starting statement belong to init-pre.
var accCtors = map[string]bool{"vaxis.New": true, "ansi.NewParser": true, "vaxis.newWriter": true}

// field classes that the types do not reveal
var accSyncFields = map[string]bool{ // internally synchronised objects: method calls are kind C
	"Parser.escTimeout": true, "Parser.paramListPool": true, "Parser.paramPool": true, "Parser.intermediatePool": true,
}

// read-only methods (receiver type name . method) of owned objects
var accReadOnly = map[string]bool{"Buffer.Len": true, "Buffer.Bytes": true, "Buffer.String": true, "screen.size": true}

// ---------------------------------------------------------------- data

type accPkg struct {
	path, short string
	dir         string
	files       []*ast.File
	info        *types.Info
	pkg         *types.Package
}

type accFn struct {
	id        int
	key       string
	pk        *accPkg
	body      *ast.BlockStmt
	addrTaken bool
	sig       types.Type // value type when used as a function value
	exported  bool
	pos       token.Pos
	goPos     []token.Pos // positions of go statements
	callPos   []accCallPos
	nlit      int
}

type accCallPos struct {
	pos    token.Pos
	callee int
}

type accSite struct {
	field, fn, kind int
	locks           uint
	pos             token.Pos
	pre             bool
}

type accCall struct {
	caller, callee int
	locks          uint
}

type accIndirect struct {
	caller int
	pk     *accPkg
	sig    types.Type
	locks  uint
	pos    token.Pos
}

type accState struct {
	pkgs           []*accPkg
	fns            []*accFn
	fnByKey        map[string]*accFn
	fnByObj        map[string]*accFn // types.Func FullName -> fn
	fields         []string          // "Vaxis.queue"
	fieldID        map[string]int
	fieldObj       map[*types.Var]int
	fieldType      []types.Type
	sites          []accSite
	calls          []accCall
	indirect       []accIndirect
	entries        map[int][]int
	unknownEntries []int
	dyn            []accDyn
	assigned       map[int][]types.Type // static types of the values stored into a tracked field
	addrFields     map[int]bool         // tracked fields whose address is taken outside sync/atomic
}

// accDyn: a call of an interface method, resolved after the walk.
type accDyn struct {
	caller int
	pk     *accPkg
	iface  *types.Interface
	name   string
	locks  uint
	pos    token.Pos
	field  int // tracked field the receiver is read from, or -1
}

type accFrame struct {
	label  string
	loop   bool
	breaks []uint
	start  uint
}

type accWalker struct {
	st        *accState
	pk        *accPkg
	fn        *accFn
	deferHeld uint
	frames    []*accFrame
}

func accPos(p token.Pos) string { return fset.Position(p).String() }

// ---------------------------------------------------------------- loading

func accLoad(repo, sub string, imp types.Importer) *accPkg {
	dir := filepath.Join(repo, sub)
	ents, err := os.ReadDir(dir)
	if err != nil {
		die("access: %v", err)
	}
	pk := &accPkg{path: accModule + strings.ReplaceAll(sub, string(filepath.Separator), "/"), dir: dir}
	if sub != "" {
		pk.path = accModule + "/" + sub
	}
	ctx := build.Default
	ctx.GOOS, ctx.GOARCH = "linux", "amd64"
	ctx.BuildTags = nil
	for _, e := range ents {
		n := e.Name()
		if e.IsDir() || !strings.HasSuffix(n, ".go") || strings.HasSuffix(n, "_test.go") {
			continue
		}
		ok, err := ctx.MatchFile(dir, n)
		if err != nil || !ok {
			continue
		}
		f, err := parser.ParseFile(fset, filepath.Join(dir, n), nil, 0)
		if err != nil {
			die("access: parse %s: %v", n, err)
		}
		pk.files = append(pk.files, f)
	}
	pk.info = &types.Info{
		Selections: map[*ast.SelectorExpr]*types.Selection{},
		Uses:       map[*ast.Ident]types.Object{},
		Defs:       map[*ast.Ident]types.Object{},
		Types:      map[ast.Expr]types.TypeAndValue{},
	}
	var firstErr error
	nerr := 0
	conf := types.Config{Importer: imp, Error: func(err error) {
		if firstErr == nil {
			firstErr = err
		}
		nerr++
	}}
	pk.pkg, _ = conf.Check(pk.path, fset, pk.files, pk.info)
	if nerr > 0 {
		die("access: %s does not type-check (%d errors), first: %v", pk.path, nerr, firstErr)
	}
	pk.short = pk.pkg.Name()
	return pk
}

func (st *accState) shortKey(f *types.Func) string {
	f = f.Origin()
	name := f.Name()
	pkgName := ""
	if f.Pkg() != nil {
		pkgName = f.Pkg().Name()
	}
	sig, _ := f.Type().(*types.Signature)
	if sig != nil && sig.Recv() != nil {
		t := sig.Recv().Type()
		if p, ok := t.(*types.Pointer); ok {
			t = p.Elem()
		}
		if n, ok := t.(*types.Named); ok {
			return pkgName + "." + n.Obj().Name() + "." + name
		}
		return pkgName + ".?." + name
	}
	return pkgName + "." + name
}

func accFullName(f *types.Func) string { return f.Origin().FullName() }

// ---------------------------------------------------------------- the rule

func init() {
	register("GenAccess", func(repo string) string {
		cwd, _ := os.Getwd()
		if err := os.Chdir(repo); err != nil {
			die("access: %v", err)
		}
		defer os.Chdir(cwd)
		imp := importer.ForCompiler(fset, "source", nil)
		st := &accState{fnByKey: map[string]*accFn{}, fnByObj: map[string]*accFn{}, fieldID: map[string]int{},
			fieldObj: map[*types.Var]int{}, entries: map[int][]int{}, assigned: map[int][]types.Type{}, addrFields: map[int]bool{}}
		for _, sub := range []string{"ansi", ""} {
			st.pkgs = append(st.pkgs, accLoad(repo, sub, imp))
		}
		st.collectFields()
		st.collectFns()
		for _, fn := range append([]*accFn(nil), st.fns...) {
			if fn.body != nil {
				w := &accWalker{st: st, pk: fn.pk, fn: fn}
				w.block(fn.body.List, 0)
			}
		}
		st.resolveIndirect()
		st.resolveDyn()
		st.strictCheck()
		st.resolveEntries()
		st.markPre()
		return st.emit()
	})
}

func (st *accState) collectFields() {
	for _, tr := range accTracked {
		var pk *accPkg
		for _, p := range st.pkgs {
			if p.path == accModule+tr[0] {
				pk = p
			}
		}
		if pk == nil {
			die("access: package for %s not loaded", tr[1])
		}
		obj := pk.pkg.Scope().Lookup(tr[1])
		if obj == nil {
			die("access: type %s not found", tr[1])
		}
		s, ok := obj.Type().Underlying().(*types.Struct)
		if !ok {
			die("access: %s is not a struct", tr[1])
		}
		for i := 0; i < s.NumFields(); i++ {
			f := s.Field(i)
			if f.Embedded() {
				die("access: %s embeds %s: promoted fields are outside the accepted grammar", tr[1], f.Name())
			}
			name := tr[1] + "." + f.Name()
			st.fieldID[name] = len(st.fields)
			st.fieldObj[f] = len(st.fields)
			st.fields = append(st.fields, name)
			st.fieldType = append(st.fieldType, f.Type())
		}
	}
	for _, l := range accLocks {
		if _, ok := st.fieldID[l]; !ok {
			die("access: lock field %s no longer exists", l)
		}
	}
	for f := range accSyncFields {
		if _, ok := st.fieldID[f]; !ok {
			die("access: field %s of the hand-written class table no longer exists", f)
		}
	}
}

func (st *accState) newFn(key string, pk *accPkg, body *ast.BlockStmt, pos token.Pos) *accFn {
	if _, dup := st.fnByKey[key]; dup {
		die("access: duplicate function key %s", key)
	}
	fn := &accFn{id: len(st.fns), key: key, pk: pk, body: body, pos: pos}
	st.fns = append(st.fns, fn)
	st.fnByKey[key] = fn
	return fn
}

func (st *accState) collectFns() {
	for _, pk := range st.pkgs {
		for _, f := range pk.files {
			for _, d := range f.Decls {
				fd, ok := d.(*ast.FuncDecl)
				if !ok {
					continue
				}
				obj, _ := pk.info.Defs[fd.Name].(*types.Func)
				if obj == nil {
					die("access: no object for func %s", fd.Name.Name)
				}
				key := st.shortKey(obj)
				if fd.Name.Name == "init" || fd.Name.Name == "_" {
					key = fmt.Sprintf("%s@%d", key, fset.Position(fd.Pos()).Line)
				}
				fn := st.newFn(key, pk, fd.Body, fd.Pos())
				fn.exported = fd.Name.IsExported()
				if fd.Recv != nil && len(fd.Recv.List) == 1 {
					t := fd.Recv.List[0].Type
					if s, ok := t.(*ast.StarExpr); ok {
						t = s.X
					}
					if ix, ok := t.(*ast.IndexExpr); ok {
						t = ix.X
					}
					if id, ok := t.(*ast.Ident); ok && !id.IsExported() {
						// methods of unexported types are reachable from outside only through interfaces
						fn.exported = false
					}
				}
				st.fnByObj[accFullName(obj)] = fn
			}
		}
	}
}

// ---------------------------------------------------------------- statements

func (w *accWalker) pushFrame(label string, loop bool, start uint) *accFrame {
	f := &accFrame{label: label, loop: loop, start: start}
	w.frames = append(w.frames, f)
	return f
}

func (w *accWalker) popFrame() { w.frames = w.frames[:len(w.frames)-1] }

func (w *accWalker) findFrame(label string, wantLoop bool) *accFrame {
	for i := len(w.frames) - 1; i >= 0; i-- {
		f := w.frames[i]
		if label != "" {
			if f.label == label {
				return f
			}
			continue
		}
		if !wantLoop || f.loop {
			return f
		}
	}
	return nil
}

// block walks statements in order; returns the lock set at the end and whether
// control cannot fall through.
func (w *accWalker) block(list []ast.Stmt, held uint) (uint, bool) {
	for _, s := range list {
		var term bool
		held, term = w.stmt(s, held, "")
		if term {
			return held, true
		}
	}
	return held, false
}

func (w *accWalker) lockOp(e ast.Expr) (lock uint, op string) {
	call, ok := e.(*ast.CallExpr)
	if !ok || len(call.Args) != 0 {
		return 0, ""
	}
	sel, ok := call.Fun.(*ast.SelectorExpr)
	if !ok || (sel.Sel.Name != "Lock" && sel.Sel.Name != "Unlock") {
		return 0, ""
	}
	inner, ok := sel.X.(*ast.SelectorExpr)
	if !ok {
		return 0, ""
	}
	fid, ok := w.trackedField(inner)
	if !ok {
		return 0, ""
	}
	for i, l := range accLocks {
		if w.st.fields[fid] == l {
			// the base of the lock field is still an access (e.g. w.vx.mu would read writer.vx)
			w.expr(inner.X, ctxRead, 0)
			return 1 << uint(i), sel.Sel.Name
		}
	}
	return 0, ""
}

func (w *accWalker) stmt(s ast.Stmt, held uint, label string) (uint, bool) {
	switch s := s.(type) {
	case nil:
		return held, false
	case *ast.EmptyStmt:
		return held, false
	case *ast.LabeledStmt:
		return w.stmt(s.Stmt, held, s.Label.Name)
	case *ast.ExprStmt:
		if l, op := w.lockOp(s.X); l != 0 {
			if op == "Lock" {
				return held | l, false
			}
			return held &^ l, false
		}
		w.expr(s.X, ctxRead, held)
		if call, ok := s.X.(*ast.CallExpr); ok {
			if id, ok := call.Fun.(*ast.Ident); ok && id.Name == "panic" {
				if tv, ok := w.pk.info.Types[call.Fun]; ok && tv.IsBuiltin() {
					return held, true
				}
			}
		}
		return held, false
	case *ast.SendStmt:
		w.expr(s.Chan, ctxChan, held)
		w.expr(s.Value, ctxRead, held)
		return held, false
	case *ast.IncDecStmt:
		w.expr(s.X, ctxRead, held)
		w.expr(s.X, ctxWrite, held)
		return held, false
	case *ast.AssignStmt:
		for _, r := range s.Rhs {
			w.expr(r, ctxRead, held)
		}
		if len(s.Lhs) == len(s.Rhs) {
			for i, l := range s.Lhs {
				if sel, ok := l.(*ast.SelectorExpr); ok {
					if fid, ok := w.trackedField(sel); ok {
						w.st.assigned[fid] = append(w.st.assigned[fid], w.pk.info.Types[s.Rhs[i]].Type)
					}
				}
			}
		} else {
			for _, l := range s.Lhs {
				if sel, ok := l.(*ast.SelectorExpr); ok {
					if fid, ok := w.trackedField(sel); ok {
						w.st.assigned[fid] = append(w.st.assigned[fid], nil) // unknown
					}
				}
			}
		}
		for _, l := range s.Lhs {
			if s.Tok != token.ASSIGN && s.Tok != token.DEFINE {
				w.expr(l, ctxRead, held) // op-assign reads too
			}
			w.expr(l, ctxWrite, held)
		}
		return held, false
	case *ast.GoStmt:
		w.goOrDefer(s.Call, held, true)
		return held, false
	case *ast.DeferStmt:
		if l, op := w.lockOp(s.Call); l != 0 {
			if op == "Unlock" {
				w.deferHeld |= l
				return held, false
			}
			die("access: %s: deferred Lock is outside the accepted grammar", accPos(s.Pos()))
		}
		w.goOrDefer(s.Call, held&w.deferHeld, false)
		return held, false
	case *ast.ReturnStmt:
		for _, r := range s.Results {
			w.expr(r, ctxRead, held)
		}
		return held, true
	case *ast.BranchStmt:
		lab := ""
		if s.Label != nil {
			lab = s.Label.Name
		}
		switch s.Tok {
		case token.BREAK:
			f := w.findFrame(lab, false)
			if f == nil {
				die("access: %s: break without target", accPos(s.Pos()))
			}
			f.breaks = append(f.breaks, held)
		case token.CONTINUE:
			f := w.findFrame(lab, true)
			if f == nil {
				die("access: %s: continue without target", accPos(s.Pos()))
			}
			if f.start != held {
				die("access: %s: continue with a lock set different from the loop's start (outside the accepted grammar)", accPos(s.Pos()))
			}
		case token.GOTO:
			die("access: %s: goto is outside the accepted grammar", accPos(s.Pos()))
		case token.FALLTHROUGH:
			return held, false
		}
		return held, true
	case *ast.BlockStmt:
		return w.block(s.List, held)
	case *ast.IfStmt:
		if s.Init != nil {
			held, _ = w.stmt(s.Init, held, "")
		}
		w.expr(s.Cond, ctxRead, held)
		h1, t1 := w.block(s.Body.List, held)
		h2, t2 := held, false
		if s.Else != nil {
			h2, t2 = w.stmt(s.Else, held, "")
		}
		return accJoin([]uint{h1, h2}, []bool{t1, t2}, held)
	case *ast.ForStmt:
		if s.Init != nil {
			held, _ = w.stmt(s.Init, held, "")
		}
		f := w.pushFrame(label, true, held)
		if s.Cond != nil {
			w.expr(s.Cond, ctxRead, held)
		}
		h, t := w.block(s.Body.List, held)
		if s.Post != nil && !t {
			h, _ = w.stmt(s.Post, h, "")
		}
		w.popFrame()
		if !t && h != held {
			die("access: %s: loop body changes the lock set (outside the accepted grammar)", accPos(s.Pos()))
		}
		outs := append([]uint(nil), f.breaks...)
		if s.Cond != nil {
			outs = append(outs, held)
		}
		if len(outs) == 0 {
			return held, true // for {} without break never falls through
		}
		return accMeet(outs), false
	case *ast.RangeStmt:
		ctx := ctxRead
		if tv, ok := w.pk.info.Types[s.X]; ok {
			if _, isChan := tv.Type.Underlying().(*types.Chan); isChan {
				ctx = ctxChan
			}
		}
		w.expr(s.X, ctx, held)
		if s.Tok == token.ASSIGN {
			if s.Key != nil {
				w.expr(s.Key, ctxWrite, held)
			}
			if s.Value != nil {
				w.expr(s.Value, ctxWrite, held)
			}
		}
		f := w.pushFrame(label, true, held)
		h, t := w.block(s.Body.List, held)
		w.popFrame()
		if !t && h != held {
			die("access: %s: loop body changes the lock set (outside the accepted grammar)", accPos(s.Pos()))
		}
		return accMeet(append(append([]uint(nil), f.breaks...), held)), false
	case *ast.SwitchStmt:
		if s.Init != nil {
			held, _ = w.stmt(s.Init, held, "")
		}
		if s.Tag != nil {
			w.expr(s.Tag, ctxRead, held)
		}
		return w.clauses(s.Body, held, label, false)
	case *ast.TypeSwitchStmt:
		if s.Init != nil {
			held, _ = w.stmt(s.Init, held, "")
		}
		held, _ = w.stmt(s.Assign, held, "")
		return w.clauses(s.Body, held, label, false)
	case *ast.SelectStmt:
		return w.clauses(s.Body, held, label, true)
	case *ast.DeclStmt:
		gd, ok := s.Decl.(*ast.GenDecl)
		if ok {
			for _, sp := range gd.Specs {
				if vs, ok := sp.(*ast.ValueSpec); ok {
					for _, v := range vs.Values {
						w.expr(v, ctxRead, held)
					}
				}
			}
		}
		return held, false
	}
	die("access: %s: statement %T is outside the accepted grammar", accPos(s.Pos()), s)
	return held, false
}

func accMeet(hs []uint) uint {
	r := ^uint(0)
	for _, h := range hs {
		r &= h
	}
	return r
}

func accJoin(hs []uint, ts []bool, dflt uint) (uint, bool) {
	var live []uint
	for i := range hs {
		if !ts[i] {
			live = append(live, hs[i])
		}
	}
	if len(live) == 0 {
		return dflt, true
	}
	return accMeet(live), false
}

func (w *accWalker) clauses(body *ast.BlockStmt, held uint, label string, isSelect bool) (uint, bool) {
	f := w.pushFrame(label, false, held)
	var hs []uint
	var ts []bool
	hasDefault := false
	for _, c := range body.List {
		var list []ast.Stmt
		h := held
		switch c := c.(type) {
		case *ast.CaseClause:
			if c.List == nil {
				hasDefault = true
			}
			for _, e := range c.List {
				if tv, ok := w.pk.info.Types[e]; ok && tv.IsType() {
					continue
				}
				w.expr(e, ctxRead, held)
			}
			list = c.Body
		case *ast.CommClause:
			if c.Comm == nil {
				hasDefault = true
			} else {
				h, _ = w.stmt(c.Comm, held, "")
			}
			list = c.Body
		}
		h2, t := w.block(list, h)
		hs = append(hs, h2)
		ts = append(ts, t)
	}
	w.popFrame()
	if !hasDefault && !isSelect {
		hs = append(hs, held)
		ts = append(ts, false)
	}
	for _, b := range f.breaks {
		hs = append(hs, b)
		ts = append(ts, false)
	}
	return accJoin(hs, ts, held)
}

// goOrDefer handles `go f(...)` and `defer f(...)`.
func (w *accWalker) goOrDefer(call *ast.CallExpr, held uint, isGo bool) {
	if isGo {
		w.fn.goPos = append(w.fn.goPos, call.Pos())
	}
	if lit, ok := call.Fun.(*ast.FuncLit); ok {
		for _, a := range call.Args {
			w.expr(a, ctxRead, held)
		}
		fn := w.newLit(lit)
		if isGo {
			w.st.spawn(fn)
		} else {
			w.addCall(fn.id, held, call.Pos())
		}
		return
	}
	if isGo {
		// go x.m(...): the target is an entry point, not a callee
		if f := w.calleeFunc(call.Fun); f != nil {
			for _, a := range call.Args {
				w.expr(a, ctxRead, held)
			}
			if sel, ok := call.Fun.(*ast.SelectorExpr); ok {
				w.expr(sel.X, ctxRead, held)
			}
			if fn := w.st.fnByObj[accFullName(f)]; fn != nil {
				w.st.spawn(fn)
			}
			return
		}
		die("access: %s: go statement with a computed target is outside the accepted grammar", accPos(call.Pos()))
	}
	// deferred ordinary call: evaluate as a call with the deferred lock set
	w.callExpr(call, held, true)
}

func (st *accState) spawn(fn *accFn) {
	for _, keys := range accEntries {
		for _, k := range keys {
			if k == fn.key {
				return
			}
		}
	}
	st.unknownEntries = append(st.unknownEntries, fn.id)
}

func (w *accWalker) newLit(lit *ast.FuncLit) *accFn {
	w.fn.nlit++
	key := fmt.Sprintf("%s$%d", w.fn.key, w.fn.nlit)
	fn := w.st.newFn(key, w.pk, lit.Body, lit.Pos())
	if tv, ok := w.pk.info.Types[lit]; ok {
		fn.sig = tv.Type
	}
	sub := &accWalker{st: w.st, pk: w.pk, fn: fn}
	sub.block(lit.Body.List, 0)
	return fn
}

func (w *accWalker) addCall(callee int, held uint, pos token.Pos) {
	w.st.calls = append(w.st.calls, accCall{w.fn.id, callee, held})
	w.fn.callPos = append(w.fn.callPos, accCallPos{pos, callee})
}

// ---------------------------------------------------------------- expressions

const (
	ctxRead = iota
	ctxWrite
	ctxAtomic
	ctxChan
	ctxAddr
)

func (w *accWalker) trackedField(sel *ast.SelectorExpr) (int, bool) {
	s, ok := w.pk.info.Selections[sel]
	if !ok || s.Kind() != types.FieldVal {
		return 0, false
	}
	v, ok := s.Obj().(*types.Var)
	if !ok {
		return 0, false
	}
	id, ok := w.st.fieldObj[v]
	if !ok {
		// instantiated / imported copies of the same field: match by owner type and name
		return w.fieldByName(s)
	}
	if len(s.Index()) != 1 {
		die("access: %s: promoted field selection is outside the accepted grammar", accPos(sel.Pos()))
	}
	return id, true
}

// fieldByName: the root package sees ansi.Parser through the importer, as a
// different object; its fields are unexported so this cannot happen, but be safe.
func (w *accWalker) fieldByName(s *types.Selection) (int, bool) {
	t := s.Recv()
	if p, ok := t.(*types.Pointer); ok {
		t = p.Elem()
	}
	n, ok := t.(*types.Named)
	if !ok || n.Obj().Pkg() == nil {
		return 0, false
	}
	for _, tr := range accTracked {
		if n.Obj().Pkg().Path() == accModule+tr[0] && n.Obj().Name() == tr[1] {
			id, ok := w.st.fieldID[tr[1]+"."+s.Obj().Name()]
			return id, ok
		}
	}
	return 0, false
}

func (w *accWalker) site(fid, kind int, held uint, pos token.Pos) {
	w.st.sites = append(w.st.sites, accSite{field: fid, fn: w.fn.id, kind: kind, locks: held, pos: pos})
}

func accIsChan(t types.Type) bool {
	_, ok := t.Underlying().(*types.Chan)
	return ok
}

func (w *accWalker) calleeFunc(fun ast.Expr) *types.Func {
	switch f := fun.(type) {
	case *ast.ParenExpr:
		return w.calleeFunc(f.X)
	case *ast.Ident:
		if o, ok := w.pk.info.Uses[f].(*types.Func); ok {
			return o
		}
	case *ast.SelectorExpr:
		if s, ok := w.pk.info.Selections[f]; ok {
			if s.Kind() == types.MethodVal {
				if o, ok := s.Obj().(*types.Func); ok {
					return o
				}
			}
			return nil
		}
		if o, ok := w.pk.info.Uses[f.Sel].(*types.Func); ok { // pkg.Func
			return o
		}
	case *ast.IndexExpr: // generic instantiation f[T]
		return w.calleeFunc(f.X)
	}
	return nil
}

func (w *accWalker) expr(e ast.Expr, ctx int, held uint) {
	switch e := e.(type) {
	case nil:
	case *ast.BadExpr:
	case *ast.Ident:
		if o, ok := w.pk.info.Uses[e].(*types.Func); ok {
			w.takeAddr(o, w.pk.info.Types[e].Type)
		}
	case *ast.BasicLit:
	case *ast.Ellipsis:
	case *ast.FuncLit:
		fn := w.newLit(e)
		fn.addrTaken = true
	case *ast.CompositeLit:
		w.composite(e, held)
	case *ast.ParenExpr:
		w.expr(e.X, ctx, held)
	case *ast.SelectorExpr:
		if fid, ok := w.trackedField(e); ok {
			kind := 0
			switch ctx {
			case ctxRead:
				kind = 0
			case ctxWrite, ctxAddr:
				kind = 1
			case ctxAtomic:
				kind = 2
			case ctxChan:
				kind = 3
				if !accIsChan(w.st.fieldType[fid]) && !accSyncFields[w.st.fields[fid]] {
					kind = 1
				}
			}
			for _, l := range accLocks {
				if w.st.fields[fid] == l {
					die("access: %s: the mutex %s is used other than by Lock/Unlock/defer Unlock", accPos(e.Pos()), l)
				}
			}
			if ctx == ctxAddr {
				w.st.addrFields[fid] = true
			}
			w.site(fid, kind, held, e.Sel.Pos())
			w.expr(e.X, ctxRead, held)
			return
		}
		if s, ok := w.pk.info.Selections[e]; ok {
			switch s.Kind() {
			case types.FieldVal:
				// untracked field: a write/address propagates inward to the owning tracked slot
				if ctx == ctxWrite || ctx == ctxAddr || ctx == ctxAtomic {
					c := ctx
					if ctx == ctxAtomic {
						// atomic access to a sub-field of an untracked struct reached through a
						// tracked pointer is not an access to the tracked slot itself
						c = ctxRead
					}
					w.expr(e.X, c, held)
				} else {
					w.expr(e.X, ctxRead, held)
				}
			case types.MethodVal:
				// method value (not called): address taken
				if o, ok := s.Obj().(*types.Func); ok {
					w.takeAddr(o, w.pk.info.Types[e].Type)
				}
				w.expr(e.X, ctxRead, held)
			default:
				w.expr(e.X, ctxRead, held)
			}
			return
		}
		// qualified identifier pkg.Name
		if o, ok := w.pk.info.Uses[e.Sel].(*types.Func); ok {
			w.takeAddr(o, w.pk.info.Types[e].Type)
		}
	case *ast.IndexExpr:
		w.expr(e.Index, ctxRead, held)
		if ctx == ctxWrite || ctx == ctxAddr {
			w.expr(e.X, ctxWrite, held)
		} else {
			w.expr(e.X, ctxRead, held)
		}
	case *ast.IndexListExpr:
		w.expr(e.X, ctxRead, held)
	case *ast.SliceExpr:
		w.expr(e.Low, ctxRead, held)
		w.expr(e.High, ctxRead, held)
		w.expr(e.Max, ctxRead, held)
		w.expr(e.X, ctxRead, held)
	case *ast.TypeAssertExpr:
		w.expr(e.X, ctxRead, held)
	case *ast.StarExpr:
		if ctx == ctxWrite {
			w.expr(e.X, ctxWrite, held)
		} else {
			w.expr(e.X, ctxRead, held)
		}
	case *ast.UnaryExpr:
		switch e.Op {
		case token.ARROW:
			w.expr(e.X, ctxChan, held)
		case token.AND:
			if _, isLit := e.X.(*ast.CompositeLit); isLit {
				w.expr(e.X, ctxRead, held)
			} else if ctx == ctxAtomic {
				w.expr(e.X, ctxAtomic, held)
			} else {
				w.expr(e.X, ctxAddr, held)
			}
		default:
			w.expr(e.X, ctxRead, held)
		}
	case *ast.BinaryExpr:
		w.expr(e.X, ctxRead, held)
		w.expr(e.Y, ctxRead, held)
	case *ast.KeyValueExpr:
		w.expr(e.Key, ctxRead, held)
		w.expr(e.Value, ctxRead, held)
	case *ast.CallExpr:
		w.callExpr(e, held, false)
	case *ast.ArrayType, *ast.StructType, *ast.FuncType, *ast.InterfaceType, *ast.MapType, *ast.ChanType:
	default:
		die("access: %s: expression %T is outside the accepted grammar", accPos(e.Pos()), e)
	}
}

func (w *accWalker) takeAddr(o *types.Func, t types.Type) {
	if fn := w.st.fnByObj[accFullName(o)]; fn != nil {
		fn.addrTaken = true
		if t != nil {
			fn.sig = t
		}
	}
}

func (w *accWalker) composite(e *ast.CompositeLit, held uint) {
	tv := w.pk.info.Types[e]
	var named *types.Named
	if tv.Type != nil {
		named, _ = tv.Type.(*types.Named)
	}
	trackedName := ""
	if named != nil && named.Obj().Pkg() != nil {
		for _, tr := range accTracked {
			if named.Obj().Pkg().Path() == accModule+tr[0] && named.Obj().Name() == tr[1] {
				trackedName = tr[1]
			}
		}
	}
	foreign := named != nil && named.Obj().Pkg() != nil && !strings.HasPrefix(named.Obj().Pkg().Path(), accModule)
	for i, el := range e.Elts {
		val := el
		if kv, ok := el.(*ast.KeyValueExpr); ok {
			val = kv.Value
			if trackedName != "" {
				id, ok := kv.Key.(*ast.Ident)
				if !ok {
					die("access: %s: composite literal key", accPos(kv.Pos()))
				}
				fid, ok := w.st.fieldID[trackedName+"."+id.Name]
				if !ok {
					die("access: %s: unknown field %s", accPos(kv.Pos()), id.Name)
				}
				w.site(fid, 1, held, kv.Pos())
				w.st.assigned[fid] = append(w.st.assigned[fid], w.pk.info.Types[kv.Value].Type)
			} else if _, isStruct := tv.Type.Underlying().(*types.Struct); !isStruct {
				w.expr(kv.Key, ctxRead, held)
			}
		} else if trackedName != "" {
			s := tv.Type.Underlying().(*types.Struct)
			fid := w.st.fieldID[trackedName+"."+s.Field(i).Name()]
			w.site(fid, 1, held, el.Pos())
			w.st.assigned[fid] = append(w.st.assigned[fid], w.pk.info.Types[el].Type)
		}
		if lit, ok := val.(*ast.FuncLit); ok && foreign {
			fn := w.newLit(lit)
			fn.addrTaken = true
			w.st.foreignEscape(fn, w.fn, held)
			continue
		}
		w.expr(val, ctxRead, held)
	}
}

// foreignEscape: a function literal handed to code outside the two packages.
// Listed in accEntries -> it is that role's entry.  Otherwise it is treated both
// as called synchronously by the function that hands it over (lock set: none)
// and as an entry of the catch-all role.
func (st *accState) foreignEscape(fn, from *accFn, held uint) {
	for _, keys := range accEntries {
		for _, k := range keys {
			if k == fn.key {
				return
			}
		}
	}
	st.calls = append(st.calls, accCall{from.id, fn.id, 0})
	st.unknownEntries = append(st.unknownEntries, fn.id)
}

func (w *accWalker) inModule(o types.Object) bool {
	return o != nil && o.Pkg() != nil && strings.HasPrefix(o.Pkg().Path(), accModule)
}

func (w *accWalker) callExpr(call *ast.CallExpr, held uint, deferred bool) {
	info := w.pk.info
	tv := info.Types[call.Fun]
	// conversion
	if tv.IsType() {
		for _, a := range call.Args {
			w.expr(a, ctxRead, held)
		}
		return
	}
	// builtin
	if tv.IsBuiltin() {
		name := ""
		switch f := call.Fun.(type) {
		case *ast.Ident:
			name = f.Name
		case *ast.ParenExpr:
			if id, ok := f.X.(*ast.Ident); ok {
				name = id.Name
			}
		}
		for i, a := range call.Args {
			at := info.Types[a]
			switch {
			case at.IsType():
			case name == "close":
				w.expr(a, ctxChan, held)
			case (name == "len" || name == "cap") && at.Type != nil && accIsChan(at.Type):
				w.expr(a, ctxChan, held)
			case name == "delete" && i == 0, name == "clear", name == "copy" && i == 0:
				w.expr(a, ctxWrite, held)
			default:
				w.expr(a, ctxRead, held)
			}
		}
		return
	}
	// immediately invoked literal
	if lit, ok := call.Fun.(*ast.FuncLit); ok {
		for _, a := range call.Args {
			w.expr(a, ctxRead, held)
		}
		fn := w.newLit(lit)
		w.addCall(fn.id, held, call.Pos())
		return
	}
	callee := w.calleeFunc(call.Fun)
	atomicCall := false
	if callee != nil {
		fk := accFullName(callee)
		if callee.Pkg() != nil && callee.Pkg().Path() == "sync/atomic" {
			atomicCall = true
		}
		if fk == accModule+".atomicLoad" || fk == accModule+".atomicStore" {
			atomicCall = true
		}
	}
	// arguments
	var sig *types.Signature
	if tv.Type != nil {
		sig, _ = tv.Type.Underlying().(*types.Signature)
	}
	foreign := callee != nil && !w.inModule(callee)
	for i, a := range call.Args {
		if lit, ok := a.(*ast.FuncLit); ok && foreign {
			fn := w.newLit(lit)
			fn.addrTaken = true
			w.st.foreignEscape(fn, w.fn, held)
			continue
		}
		if atomicCall && i == 0 {
			w.expr(a, ctxAtomic, held)
		} else {
			w.expr(a, ctxRead, held)
		}
		// value of an in-package type converted to an interface parameter
		if sig != nil {
			var pt types.Type
			n := sig.Params().Len()
			switch {
			case sig.Variadic() && i >= n-1:
				if call.Ellipsis == token.NoPos {
					if sl, ok := sig.Params().At(n - 1).Type().(*types.Slice); ok {
						pt = sl.Elem()
					}
				}
			case i < n:
				pt = sig.Params().At(i).Type()
			}
			if pt != nil {
				w.ifaceConv(info.Types[a].Type, pt, held, a.Pos())
			}
		}
	}
	// receiver / callee
	switch fun := call.Fun.(type) {
	case *ast.SelectorExpr:
		if s, ok := info.Selections[fun]; ok {
			switch s.Kind() {
			case types.MethodVal:
				w.methodCall(call, fun, s, held)
				return
			case types.FieldVal:
				// call through a function-valued field
				w.expr(fun, ctxRead, held)
				w.st.indirect = append(w.st.indirect, accIndirect{w.fn.id, w.pk, tv.Type, held, call.Pos()})
				return
			}
		}
		// pkg.Func(...)
		if callee != nil {
			if fn := w.st.fnByObj[accFullName(callee)]; fn != nil {
				w.addCall(fn.id, held, call.Pos())
			}
			return
		}
		w.expr(fun, ctxRead, held)
		w.st.indirect = append(w.st.indirect, accIndirect{w.fn.id, w.pk, tv.Type, held, call.Pos()})
	case *ast.Ident:
		if callee != nil {
			if fn := w.st.fnByObj[accFullName(callee)]; fn != nil {
				w.addCall(fn.id, held, call.Pos())
			}
			return
		}
		// local variable / parameter of function type
		w.st.indirect = append(w.st.indirect, accIndirect{w.fn.id, w.pk, tv.Type, held, call.Pos()})
	default:
		if callee != nil {
			if fn := w.st.fnByObj[accFullName(callee)]; fn != nil {
				w.addCall(fn.id, held, call.Pos())
			}
			return
		}
		w.expr(call.Fun, ctxRead, held)
		w.st.indirect = append(w.st.indirect, accIndirect{w.fn.id, w.pk, tv.Type, held, call.Pos()})
	}
}

func accNamedOf(t types.Type) *types.Named {
	if t == nil {
		return nil
	}
	if p, ok := t.(*types.Pointer); ok {
		t = p.Elem()
	}
	n, _ := t.(*types.Named)
	return n
}

// methodCall: x.m(...) with m a method (concrete or interface).
func (w *accWalker) methodCall(call *ast.CallExpr, fun *ast.SelectorExpr, s *types.Selection, held uint) {
	m := s.Obj().(*types.Func)
	recvT := s.Recv()
	if types.IsInterface(recvT) {
		// dynamic dispatch: every in-package implementer
		w.expr(fun.X, ctxRead, held)
		iface := recvT.Underlying().(*types.Interface)
		field := -1
		if inner, ok := fun.X.(*ast.SelectorExpr); ok {
			if fid, ok := w.trackedField(inner); ok {
				field = fid
			}
		}
		w.st.dyn = append(w.st.dyn, accDyn{w.fn.id, w.pk, iface, m.Name(), held, call.Pos(), field})
		return
	}
	if fn := w.st.fnByObj[accFullName(m)]; fn != nil {
		w.addCall(fn.id, held, call.Pos())
	}
	// how is the receiver expression used?
	recvCtx := ctxRead
	named := accNamedOf(recvT)
	if inner, ok := fun.X.(*ast.SelectorExpr); ok {
		if fid, ok := w.trackedField(inner); ok {
			fname := w.st.fields[fid]
			ft := w.st.fieldType[fid]
			_, ftIsPtr := ft.(*types.Pointer)
			switch {
			case accSyncFields[fname]:
				recvCtx = ctxChan
			case types.IsInterface(ft):
				recvCtx = ctxRead
			case w.isTrackedNamed(named):
				recvCtx = ctxRead // its own fields are tracked separately
			case named != nil && accReadOnly[named.Obj().Name()+"."+m.Name()]:
				recvCtx = ctxRead
			default:
				// value receiver on a value field copies; anything else may mutate the owned object
				sig := m.Type().(*types.Signature)
				_, recvIsPtr := sig.Recv().Type().(*types.Pointer)
				if !ftIsPtr && !recvIsPtr {
					recvCtx = ctxRead
				} else {
					recvCtx = ctxWrite
				}
			}
		}
	}
	w.expr(fun.X, recvCtx, held)
}

func (w *accWalker) isTrackedNamed(n *types.Named) bool {
	if n == nil || n.Obj().Pkg() == nil {
		return false
	}
	for _, tr := range accTracked {
		if n.Obj().Pkg().Path() == accModule+tr[0] && n.Obj().Name() == tr[1] {
			return true
		}
	}
	return false
}

// implementers: methods named `name` of the named types of pk that implement iface.
func (st *accState) implementers(pk *accPkg, iface *types.Interface, name string) []*accFn {
	var out []*accFn
	sc := pk.pkg.Scope()
	for _, n := range sc.Names() {
		tn, ok := sc.Lookup(n).(*types.TypeName)
		if !ok || tn.IsAlias() {
			continue
		}
		named, ok := tn.Type().(*types.Named)
		if !ok || named.TypeParams().Len() > 0 || types.IsInterface(named) {
			continue
		}
		for _, t := range []types.Type{named, types.NewPointer(named)} {
			if types.Implements(t, iface) {
				obj, _, _ := types.LookupFieldOrMethod(t, true, pk.pkg, name)
				if f, ok := obj.(*types.Func); ok {
					if fn := st.fnByObj[accFullName(f)]; fn != nil {
						out = append(out, fn)
					}
				}
				break
			}
		}
	}
	return out
}

var accFmtProbes = []string{"String", "Error", "Format", "GoString"}

// ifaceConv: a value of static type `from` flows into an interface-typed
// parameter `to`: foreign code may call the interface's methods on it.
func (w *accWalker) ifaceConv(from, to types.Type, held uint, pos token.Pos) {
	if from == nil || to == nil || !types.IsInterface(to) || types.IsInterface(from) {
		return
	}
	named := accNamedOf(from)
	if named == nil || named.Obj().Pkg() == nil || !strings.HasPrefix(named.Obj().Pkg().Path(), accModule) {
		return
	}
	iface := to.Underlying().(*types.Interface)
	names := map[string]bool{}
	for i := 0; i < iface.NumMethods(); i++ {
		names[iface.Method(i).Name()] = true
	}
	if iface.NumMethods() == 0 {
		for _, n := range accFmtProbes {
			names[n] = true
		}
	}
	var sorted []string
	for n := range names {
		sorted = append(sorted, n)
	}
	sort.Strings(sorted)
	for _, n := range sorted {
		obj, _, _ := types.LookupFieldOrMethod(from, true, named.Obj().Pkg(), n)
		if f, ok := obj.(*types.Func); ok {
			if fn := w.st.fnByObj[accFullName(f)]; fn != nil {
				w.addCall(fn.id, held, pos)
			}
		}
	}
}

// ---------------------------------------------------------------- post-processing

func (st *accState) resolveIndirect() {
	for _, ic := range st.indirect {
		if ic.sig == nil {
			die("access: %s: indirect call without a type", accPos(ic.pos))
		}
		for _, fn := range st.fns {
			if !fn.addrTaken || fn.sig == nil || fn.pk != ic.pk {
				continue
			}
			if types.Identical(fn.sig.Underlying(), ic.sig.Underlying()) {
				st.calls = append(st.calls, accCall{ic.caller, fn.id, ic.locks})
				st.fns[ic.caller].callPos = append(st.fns[ic.caller].callPos, accCallPos{ic.pos, fn.id})
			}
		}
	}
}

// resolveDyn: an interface method call goes to every in-package implementer —
// except that when the receiver is read from a tracked field, only implementers
// that can have been stored there count: the type must be assignable to the
// static type of at least one value assigned to that field anywhere (an unknown
// or address-taken assignment keeps every implementer).
func (st *accState) resolveDyn() {
	addrTaken := st.addrFields
	for _, d := range st.dyn {
		for _, fn := range st.implementers(d.pk, d.iface, d.name) {
			if d.field >= 0 && !addrTaken[d.field] && len(st.assigned[d.field]) > 0 && !st.storable(fn, d.field) {
				continue
			}
			st.calls = append(st.calls, accCall{d.caller, fn.id, d.locks})
			st.fns[d.caller].callPos = append(st.fns[d.caller].callPos, accCallPos{d.pos, fn.id})
		}
	}
}

// storable: can a value whose method is fn have been stored in the field?
func (st *accState) storable(fn *accFn, field int) bool {
	// the receiver type of fn
	var recv types.Type
	for _, pk := range st.pkgs {
		for id, obj := range pk.info.Defs {
			if f, ok := obj.(*types.Func); ok && id.Pos() != token.NoPos && st.fnByObj[accFullName(f)] == fn {
				if sig, ok := f.Type().(*types.Signature); ok && sig.Recv() != nil {
					recv = sig.Recv().Type()
				}
			}
		}
	}
	if recv == nil {
		return true
	}
	named := accNamedOf(recv)
	for _, a := range st.assigned[field] {
		if a == nil {
			return true
		}
		if types.IsInterface(a) {
			ia := a.Underlying().(*types.Interface)
			if named != nil && (types.Implements(named, ia) || types.Implements(types.NewPointer(named), ia)) {
				return true
			}
			continue
		}
		if an := accNamedOf(a); an != nil && named != nil && an.Obj() == named.Obj() {
			return true
		}
	}
	return false
}

// strictCheck: every selector spelled like a tracked field must have been
// resolved by the type checker (so no access can hide behind a failed lookup).
func (st *accState) strictCheck() {
	names := map[string]bool{}
	for _, f := range st.fields {
		names[f[strings.Index(f, ".")+1:]] = true
	}
	for _, pk := range st.pkgs {
		for _, f := range pk.files {
			ast.Inspect(f, func(n ast.Node) bool {
				sel, ok := n.(*ast.SelectorExpr)
				if !ok || !names[sel.Sel.Name] {
					return true
				}
				if _, ok := pk.info.Selections[sel]; ok {
					return true
				}
				if _, ok := pk.info.Uses[sel.Sel]; ok { // qualified identifier
					return true
				}
				die("access: %s: selector .%s was not resolved by the type checker", accPos(sel.Pos()), sel.Sel.Name)
				return true
			})
		}
	}
}

func (st *accState) resolveEntries() {
	listed := map[string]bool{}
	for role, keys := range accEntries {
		for _, k := range keys {
			fn := st.fnByKey[k]
			if fn == nil {
				die("access: entry point %s of role %s no longer exists (update the role table in gen/access.go)", k, accRoleNames[role])
			}
			st.entries[role] = append(st.entries[role], fn.id)
			if role == accRolePoster {
				listed[k] = true
			}
		}
	}
	for _, fn := range st.fns {
		if fn.exported && !listed[fn.key] && !accCtors[fn.key] {
			st.entries[accRoleMain] = append(st.entries[accRoleMain], fn.id)
		}
	}
	st.entries[accRoleUnknown] = append(st.entries[accRoleUnknown], st.unknownEntries...)
}

// markPre: in a constructor, sites before the first statement that can start a
// goroutine (a go statement, or a call of a function that transitively contains
// one) are init-pre.
func (st *accState) markPre() {
	spawns := map[int]bool{}
	for _, fn := range st.fns {
		if len(fn.goPos) > 0 {
			spawns[fn.id] = true
		}
	}
	for changed := true; changed; {
		changed = false
		for _, c := range st.calls {
			if spawns[c.callee] && !spawns[c.caller] {
				spawns[c.caller] = true
				changed = true
			}
		}
	}
	for key := range accCtors {
		fn := st.fnByKey[key]
		if fn == nil {
			die("access: constructor %s no longer exists", key)
		}
		first := token.Pos(1 << 40)
		for _, p := range fn.goPos {
			if p < first {
				first = p
			}
		}
		for _, cp := range fn.callPos {
			if spawns[cp.callee] && cp.pos < first {
				first = cp.pos
			}
		}
		for i := range st.sites {
			if st.sites[i].fn == fn.id && st.sites[i].pos < first {
				st.sites[i].pre = true
			}
		}
	}
}

func accLockList(m uint) string {
	var s []string
	for i := range accLocks {
		if m&(1<<uint(i)) != 0 {
			s = append(s, fmt.Sprint(i+1))
		}
	}
	return "[" + strings.Join(s, "; ") + "]"
}

func (st *accState) emit() string {
	var b strings.Builder
	b.WriteString("From Coq Require Import String.\nOpen Scope string_scope.\n\n")
	b.WriteString("(* kinds: 0 R, 1 W, 2 A (atomic slot access), 3 C (channel / internally synchronised object op).\n")
	b.WriteString("   locks: 1 Vaxis.mu, 2 writer.mut, 3 Parser.mu.  See /verif/gen/access.go for the rules. *)\n")
	b.WriteString("Record site := mkSite { s_field : Z; s_fn : Z; s_kind : Z; s_locks : list Z; s_pre : bool; s_line : Z }.\n\n")
	fmt.Fprintf(&b, "Definition field_names : list (Z * string) := [\n")
	for i, f := range st.fields {
		sep := ";"
		if i == len(st.fields)-1 {
			sep = ""
		}
		fmt.Fprintf(&b, "  (%d, \"%s\")%s\n", i, f, sep)
	}
	b.WriteString("].\n\n")
	fmt.Fprintf(&b, "Definition role_names : list (Z * string) := [")
	for i, r := range accRoleNames {
		if i > 0 {
			b.WriteString("; ")
		}
		fmt.Fprintf(&b, "(%d, \"%s\")", i, r)
	}
	b.WriteString("].\n\n")
	// only functions that matter (have a site, a call edge, or are entries) are named, but all ids are stable per run
	fmt.Fprintf(&b, "Definition fn_names : list (Z * string) := [\n")
	for i, fn := range st.fns {
		sep := ";"
		if i == len(st.fns)-1 {
			sep = ""
		}
		fmt.Fprintf(&b, "  (%d, \"%s\")%s\n", fn.id, fn.key, sep)
	}
	b.WriteString("].\n\n")
	fmt.Fprintf(&b, "Definition n_fns : Z := %d.\n\n", len(st.fns))
	// sites sorted by field, function, line
	sites := append([]accSite(nil), st.sites...)
	sort.SliceStable(sites, func(i, j int) bool {
		a, c := sites[i], sites[j]
		if a.field != c.field {
			return a.field < c.field
		}
		if a.fn != c.fn {
			return a.fn < c.fn
		}
		return a.pos < c.pos
	})
	// dedupe identical (field, fn, kind, locks, pre) keeping the first line
	type skey struct {
		f, fn, k int
		l        uint
		p        bool
	}
	seen := map[skey]bool{}
	var out []accSite
	for _, s := range sites {
		k := skey{s.field, s.fn, s.kind, s.locks, s.pre}
		if seen[k] {
			continue
		}
		seen[k] = true
		out = append(out, s)
	}
	fmt.Fprintf(&b, "(* %d syntactic access sites, %d after merging identical (field, function, kind, locks, phase) *)\n", len(sites), len(out))
	fmt.Fprintf(&b, "Definition n_raw_sites : Z := %d.\n", len(sites))
	b.WriteString("Definition sites : list site := [\n")
	for i, s := range out {
		sep := ";"
		if i == len(out)-1 {
			sep = ""
		}
		pre := "false"
		if s.pre {
			pre = "true"
		}
		fmt.Fprintf(&b, "  mkSite %d %d %d %s %s %d%s (* %s in %s *)\n", s.field, s.fn, s.kind, accLockList(s.locks), pre,
			fset.Position(s.pos).Line, sep, st.fields[s.field], st.fns[s.fn].key)
	}
	b.WriteString("].\n\n")
	// call edges, deduped
	type ckey struct {
		a, c int
		l    uint
	}
	cseen := map[ckey]bool{}
	var calls []accCall
	for _, c := range st.calls {
		k := ckey{c.caller, c.callee, c.locks}
		if cseen[k] {
			continue
		}
		cseen[k] = true
		calls = append(calls, c)
	}
	sort.SliceStable(calls, func(i, j int) bool {
		if calls[i].caller != calls[j].caller {
			return calls[i].caller < calls[j].caller
		}
		if calls[i].callee != calls[j].callee {
			return calls[i].callee < calls[j].callee
		}
		return calls[i].locks < calls[j].locks
	})
	b.WriteString("(* (caller, callee, locks held at the call site) *)\nDefinition calls : list (Z * Z * list Z) := [\n")
	for i, c := range calls {
		sep := ";"
		if i == len(calls)-1 {
			sep = ""
		}
		fmt.Fprintf(&b, "  (%d, %d, %s)%s\n", c.caller, c.callee, accLockList(c.locks), sep)
	}
	b.WriteString("].\n\n")
	b.WriteString("(* (role, entry function) — hand-written table of gen/access.go, plus: main = every other exported function *)\nDefinition entries : list (Z * Z) := [\n")
	var es []string
	for role := 0; role < len(accRoleNames); role++ {
		ids := append([]int(nil), st.entries[role]...)
		sort.Ints(ids)
		prev := -1
		for _, id := range ids {
			if id == prev {
				continue
			}
			prev = id
			es = append(es, fmt.Sprintf("  (%d, %d)", role, id))
		}
	}
	b.WriteString(strings.Join(es, ";\n"))
	b.WriteString("\n].\n\n")
	b.WriteString("(* unordered pairs of roles that may run concurrently; (r, r) = several instances of r *)\nDefinition conc : list (Z * Z) := [")
	first := true
	for a := 0; a < len(accRoleNames); a++ {
		for c := a; c < len(accRoleNames); c++ {
			if accConc(a, c) {
				if !first {
					b.WriteString("; ")
				}
				first = false
				fmt.Fprintf(&b, "(%d, %d)", a, c)
			}
		}
	}
	b.WriteString("].\n")
	fmt.Fprintf(&b, "Definition role_init_pre : Z := %d.\nDefinition role_sigclose : Z := %d.\nDefinition role_input : Z := %d.\nDefinition role_main : Z := %d.\n",
		accRoleInitPre, accRoleSigClose, accRoleInput, accRoleMain)
	b.WriteString(st.emitQueries()) // gen/query.go: channel capacities, channel operations, request-flag protocol
	return b.String()
}
