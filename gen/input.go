package main

import (
	"fmt"
	"go/ast"
	"go/token"
	"path/filepath"
	"strconv"
	"strings"
)

// GenInput (property C03): the request side of the query/reply hand-offs of vaxis.go, as the
// ordered list of protocol-relevant statements of each function that asks the terminal
// something and then waits for handleSequence to hand the reply over:
//
//	CursorPosition, ClipboardPop, QueryColor, QueryForeground, QueryBackground
//
// Protocol-relevant statements (everything else is skipped):
//
//	atomicStore(&vx.<flag>, true|false)                      -> PStore <flag id> b
//	io.WriteString(vx.console, Q) / vx.tw.WriteStringLocked(Q)  -> PWrite <bytes of the constant Q>
//	        where Q is a constant of sequences.go or tparm(<constant>, ...) (the template is emitted)
//	time.NewTimer(<n> * time.Millisecond)                    -> PTimer n
//	<-vx.<reply channel>                                     -> PRecv <channel id>
//
// CursorPosition is the function with an arming flag, so its shape is checked strictly: a
// straight-line prologue (expression / assignment statements only: no if, for, go, defer, ...)
// followed by one final select statement; the prologue is emitted in source order, the select
// as the list of its clauses (communication first, then the body).  The other functions are
// emitted as the list of their protocol statements in source order (guards such as
// `if !vx.CanReportColor() { return }` are skipped); each must write exactly one query and
// receive from exactly one reply channel.
//
// The order obligations themselves are stated and proved in Coq (coq/model/Input.v
// cursor_prog, coq/props/C03.v), not here.

var inputFlags = map[string]int{"reqCursorPos": 0}
var inputChans = map[string]int{"chCursorPos": 0, "chClipboard": 1, "chColor": 2, "chFg": 3, "chBg": 4}

type inputCtx struct {
	consts *ast.File
}

func vxField(e ast.Expr) (string, bool) {
	se, ok := e.(*ast.SelectorExpr)
	if !ok {
		return "", false
	}
	id, ok := se.X.(*ast.Ident)
	if !ok || id.Name != "vx" {
		return "", false
	}
	return se.Sel.Name, true
}

func (c *inputCtx) constBytes(fn string, e ast.Expr) string {
	if call, ok := e.(*ast.CallExpr); ok {
		if id, ok := call.Fun.(*ast.Ident); ok && id.Name == "tparm" && len(call.Args) >= 1 {
			e = call.Args[0]
		}
	}
	id, ok := e.(*ast.Ident)
	if !ok {
		die("vaxis.go %s: the query written to the terminal is not a constant of sequences.go (or tparm of one)", fn)
	}
	v := findVar(c.consts, id.Name)
	lit, ok := v.(*ast.BasicLit)
	if !ok || lit.Kind != token.STRING {
		die("vaxis.go %s: %s is not a string constant of sequences.go", fn, id.Name)
	}
	s, err := strconv.Unquote(lit.Value)
	if err != nil {
		die("sequences.go: cannot unquote %s", id.Name)
	}
	return coqBytes(s)
}

// event returns the protocol statement a node stands for, if any
func (c *inputCtx) event(fn string, n ast.Node) (string, bool) {
	switch v := n.(type) {
	case *ast.CallExpr:
		if id, ok := v.Fun.(*ast.Ident); ok && id.Name == "atomicStore" && len(v.Args) == 2 {
			ue, ok := v.Args[0].(*ast.UnaryExpr)
			if !ok || ue.Op != token.AND {
				die("vaxis.go %s: atomicStore on something that is not &vx.<field>", fn)
			}
			f, ok := vxField(ue.X)
			if !ok {
				die("vaxis.go %s: atomicStore on something that is not &vx.<field>", fn)
			}
			fid, known := inputFlags[f]
			if !known {
				return "", false
			}
			b, ok := v.Args[1].(*ast.Ident)
			if !ok || (b.Name != "true" && b.Name != "false") {
				die("vaxis.go %s: atomicStore(&vx.%s, ...) with a value that is not a literal", fn, f)
			}
			return fmt.Sprintf("PStore %d %s", fid, b.Name), true
		}
		if se, ok := v.Fun.(*ast.SelectorExpr); ok {
			// io.WriteString(vx.console, Q)
			if x, ok := se.X.(*ast.Ident); ok && x.Name == "io" && se.Sel.Name == "WriteString" && len(v.Args) == 2 {
				if f, ok := vxField(v.Args[0]); ok && f == "console" {
					return "PWrite " + c.constBytes(fn, v.Args[1]), true
				}
			}
			// vx.tw.WriteStringLocked(Q)
			if se.Sel.Name == "WriteStringLocked" && len(v.Args) == 1 {
				if f, ok := vxField(se.X); ok && f == "tw" {
					return "PWrite " + c.constBytes(fn, v.Args[0]), true
				}
			}
			// time.NewTimer(n * time.Millisecond)
			if x, ok := se.X.(*ast.Ident); ok && x.Name == "time" && se.Sel.Name == "NewTimer" && len(v.Args) == 1 {
				be, ok := v.Args[0].(*ast.BinaryExpr)
				if !ok || be.Op != token.MUL {
					die("vaxis.go %s: time.NewTimer argument is not <n> * time.Millisecond", fn)
				}
				n, ok := intLit(be.X)
				u, ok2 := be.Y.(*ast.SelectorExpr)
				if !ok || !ok2 || u.Sel.Name != "Millisecond" {
					die("vaxis.go %s: time.NewTimer argument is not <n> * time.Millisecond", fn)
				}
				return "PTimer " + coqZ(n), true
			}
		}
	case *ast.UnaryExpr:
		if v.Op == token.ARROW {
			if f, ok := vxField(v.X); ok {
				if id, known := inputChans[f]; known {
					return fmt.Sprintf("PRecv %d", id), true
				}
			}
		}
	}
	return "", false
}

// events lists the protocol statements below n in source order
func (c *inputCtx) events(fn string, n ast.Node) []string {
	var out []string
	ast.Inspect(n, func(x ast.Node) bool {
		if x == nil {
			return true
		}
		if e, ok := c.event(fn, x); ok {
			out = append(out, e)
		}
		return true
	})
	return out
}

func init() {
	register("GenInput", func(repo string) string {
		f := parseFile(filepath.Join(repo, "vaxis.go"))
		c := &inputCtx{consts: parseFile(filepath.Join(repo, "sequences.go"))}
		var b strings.Builder
		b.WriteString("(* flags: 0 reqCursorPos.  reply channels: 0 chCursorPos, 1 chClipboard, 2 chColor, 3 chFg, 4 chBg.\n" +
			"   See /verif/gen/input.go for the rules. *)\n")
		b.WriteString("Inductive pstmt :=\n  | PStore (flag : Z) (b : bool)\n  | PWrite (query : list Z)\n  | PTimer (ms : Z)\n  | PRecv (ch : Z).\n\n")

		// ---- CursorPosition: strict shape
		fd := findFunc(f, "Vaxis", "CursorPosition")
		if fd == nil || fd.Body == nil {
			die("vaxis.go: func (vx *Vaxis) CursorPosition not found")
		}
		stmts := fd.Body.List
		if len(stmts) == 0 {
			die("vaxis.go CursorPosition: empty body")
		}
		sel, ok := stmts[len(stmts)-1].(*ast.SelectStmt)
		if !ok {
			die("vaxis.go CursorPosition: the last statement is not a select")
		}
		var pro []string
		for _, st := range stmts[:len(stmts)-1] {
			switch st.(type) {
			case *ast.ExprStmt, *ast.AssignStmt:
			default:
				die("vaxis.go CursorPosition: line %d: the prologue is not straight-line code (only expression and assignment statements are accepted)", fset.Position(st.Pos()).Line)
			}
			pro = append(pro, c.events("CursorPosition", st)...)
		}
		fmt.Fprintf(&b, "Definition cursor_position_prologue : list pstmt :=\n  [%s].\n", strings.Join(pro, "; "))
		var clauses []string
		for _, cl := range sel.Body.List {
			cc := cl.(*ast.CommClause)
			var evs []string
			if cc.Comm != nil {
				evs = append(evs, c.events("CursorPosition", cc.Comm)...)
			}
			for _, st := range cc.Body {
				evs = append(evs, c.events("CursorPosition", st)...)
			}
			clauses = append(clauses, "["+strings.Join(evs, "; ")+"]")
		}
		fmt.Fprintf(&b, "Definition cursor_position_select : list (list pstmt) :=\n  [%s].\n\n", strings.Join(clauses, "; "))

		// ---- the callers without a flag: one query written, one reply channel received from
		for _, q := range [][2]string{{"ClipboardPop", "clipboard_pop_body"}, {"QueryColor", "query_color_body"},
			{"QueryForeground", "query_foreground_body"}, {"QueryBackground", "query_background_body"}} {
			fd := findFunc(f, "Vaxis", q[0])
			if fd == nil || fd.Body == nil {
				die("vaxis.go: func (vx *Vaxis) %s not found", q[0])
			}
			evs := c.events(q[0], fd.Body)
			nw, nr := 0, 0
			for _, e := range evs {
				if strings.HasPrefix(e, "PWrite") {
					nw++
				}
				if strings.HasPrefix(e, "PRecv") {
					nr++
				}
			}
			if nw != 1 || nr != 1 {
				die("vaxis.go %s: expected one query write and one receive from a reply channel, found %d and %d", q[0], nw, nr)
			}
			fmt.Fprintf(&b, "Definition %s : list pstmt :=\n  [%s].\n", q[1], strings.Join(evs, "; "))
		}
		return b.String()
	})
}
