package main

import (
	"fmt"
	"go/ast"
	"path/filepath"
	"strings"
)

// GenPalette: color.go `var colorIndex = []uint32{...}` -> list Z, plus the
// tag bits `indexed` / `rgb`.
func init() {
	register("GenPalette", func(repo string) string {
		f := parseFile(filepath.Join(repo, "color.go"))
		e := findVar(f, "colorIndex")
		cl, ok := e.(*ast.CompositeLit)
		if !ok {
			die("color.go: colorIndex is not a composite literal")
		}
		var vals []string
		for _, el := range cl.Elts {
			n, ok := intLit(el)
			if !ok {
				die("color.go: colorIndex element is not an integer literal")
			}
			vals = append(vals, coqZ(n))
		}
		var b strings.Builder
		fmt.Fprintf(&b, "Definition colorIndex : list Z :=\n  [%s].\n", strings.Join(vals, "; "))
		return b.String()
	})
}
