package main

import (
	"bytes"
	"crypto/sha256"
	"fmt"
	"go/ast"
	"go/printer"
	"go/token"
	"path/filepath"
	"strconv"
	"strings"
)

// GenSgr (property C18):
//   - the SGR / OSC 8 format strings of sequences.go and styled_string.go as code-point lists
//     (props/C18.v proves that the model's printer produces exactly these strings);
//   - digests of the bodies of parseSGR (cell.go) and (*Model).sgr (widgets/term/sgr.go) after
//     renaming vt.cursor.X -> style.X and vaxis.Y -> Y: the model uses one definition for both
//     consumers, props/C18.v contains the equation of the two digests.
func init() {
	register("GenSgr", func(repo string) string {
		var b strings.Builder
		seq := parseFile(filepath.Join(repo, "sequences.go"))
		ss := parseFile(filepath.Join(repo, "styled_string.go"))
		strConst := func(f *ast.File, file, name string) {
			e := findVar(f, name)
			lit, ok := e.(*ast.BasicLit)
			if !ok || lit.Kind != token.STRING {
				die("%s: %s is not a string literal", file, name)
			}
			v, err := strconv.Unquote(lit.Value)
			if err != nil {
				die("%s: %s: %v", file, name, err)
			}
			fmt.Fprintf(&b, "Definition k_%s : list Z := %s.\n", name, coqRunes(v))
		}
		for _, n := range []string{"sgrReset", "boldSet", "dimSet", "italicSet", "underlineSet", "blinkSet", "reverseSet",
			"hiddenSet", "strikethroughSet", "boldDimReset", "italicReset", "underlineReset", "blinkReset", "reverseReset",
			"hiddenReset", "strikethroughReset", "fgReset", "bgReset", "ulColorReset", "fgSet", "fgBrightSet", "bgSet",
			"bgBrightSet", "ulIndexSet", "ulRGBSet", "ulStyleSet", "fgIndexSet", "fgRGBSet", "bgIndexSet", "bgRGBSet", "osc8"} {
			strConst(seq, "sequences.go", n)
		}
		for _, n := range []string{"ssFgIndexSet", "ssFgRGBSet", "ssBgIndexSet", "ssBgRGBSet"} {
			strConst(ss, "styled_string.go", n)
		}

		cell := parseFile(filepath.Join(repo, "cell.go"))
		term := parseFile(filepath.Join(repo, "widgets", "term", "sgr.go"))
		f1 := findFunc(cell, "", "parseSGR")
		f2 := findFunc(term, "Model", "sgr")
		if f1 == nil || f1.Body == nil {
			die("cell.go: func parseSGR not found")
		}
		if f2 == nil || f2.Body == nil {
			die("widgets/term/sgr.go: method (*Model).sgr not found")
		}
		d1 := bodyDigest(f1.Body)
		d2 := bodyDigest(normaliseTermSgr(f2.Body))
		fmt.Fprintf(&b, "\n(* first 60 bits of SHA-256 of the printed, renamed function bodies *)\n")
		fmt.Fprintf(&b, "Definition digest_parseSGR : Z := %d.\n", d1)
		fmt.Fprintf(&b, "Definition digest_term_sgr : Z := %d.\n", d2)
		return b.String()
	})
}

func bodyDigest(body ast.Node) uint64 {
	var buf bytes.Buffer
	if err := printer.Fprint(&buf, token.NewFileSet(), body); err != nil {
		die("printing a function body: %v", err)
	}
	h := sha256.Sum256(buf.Bytes())
	var v uint64
	for i := 0; i < 8; i++ {
		v = v<<8 | uint64(h[i])
	}
	return v >> 4
}

// normaliseTermSgr rewrites, in place, vt.cursor.X to style.X and vaxis.Y to Y.
func normaliseTermSgr(body *ast.BlockStmt) *ast.BlockStmt {
	var rewrite func(e ast.Expr) ast.Expr
	rewrite = func(e ast.Expr) ast.Expr {
		sel, ok := e.(*ast.SelectorExpr)
		if !ok {
			return e
		}
		if id, ok := sel.X.(*ast.Ident); ok && id.Name == "vaxis" {
			return &ast.Ident{Name: sel.Sel.Name}
		}
		if in, ok := sel.X.(*ast.SelectorExpr); ok {
			if id, ok := in.X.(*ast.Ident); ok && id.Name == "vt" && in.Sel.Name == "cursor" {
				return &ast.SelectorExpr{X: &ast.Ident{Name: "style"}, Sel: &ast.Ident{Name: sel.Sel.Name}}
			}
		}
		return e
	}
	ast.Inspect(body, func(n ast.Node) bool {
		switch v := n.(type) {
		case *ast.AssignStmt:
			for i := range v.Lhs {
				v.Lhs[i] = rewrite(v.Lhs[i])
			}
			for i := range v.Rhs {
				v.Rhs[i] = rewrite(v.Rhs[i])
			}
		case *ast.CallExpr:
			v.Fun = rewrite(v.Fun)
			for i := range v.Args {
				v.Args[i] = rewrite(v.Args[i])
			}
		case *ast.BinaryExpr:
			v.X, v.Y = rewrite(v.X), rewrite(v.Y)
		case *ast.CaseClause:
			for i := range v.List {
				v.List[i] = rewrite(v.List[i])
			}
		}
		return true
	})
	return body
}
