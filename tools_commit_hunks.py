#!/usr/bin/env python3
"""stage selected hunks of one file in /repo and commit: tools_commit_hunks.py <file> <hunk,hunk,...> <message>"""
import subprocess, sys, re
f, hunks, msg = sys.argv[1], [int(x) for x in sys.argv[2].split(",")], sys.argv[3]
d = subprocess.run(["git", "-C", "/repo", "diff", "-U3", "--", f], capture_output=True, text=True, check=True).stdout
parts = re.split(r"(?m)^(?=@@ )", d)
head, hs = parts[0], parts[1:]
patch = head + "".join(hs[i] for i in hunks)
p = subprocess.run(["git", "-C", "/repo", "apply", "--cached", "--recount", "-"], input=patch, text=True)
if p.returncode != 0:
    sys.exit("apply failed")
subprocess.run(["git", "-C", "/repo", "commit", "-q", "-m", msg], check=True)
print("committed", f, hunks, "of", len(hs))
