#!/usr/bin/env python3
"""Validate a seeded mutant and run the registered check against it.

  tools_seed.py <prop> <name> <mutant_dir> <worktree> <demo_pkg_dir> [<check ids>]

mutant_dir holds patch.diff, demo_test.go (or demo/main.go), notes.md.
1. in <worktree> (scratch git worktree of /repo, clean): apply patch, build, run the existing tests (must
   pass), run the demo (must FAIL); undo; run the demo (must PASS).
2. in /repo: git apply patch; run ./check run <id> for each id (default: prop); git apply -R.
3. write /verif/seeded/<name>/{patch.diff,demo*,notes.md,meta.json}
"""
import sys, os, subprocess, json, shutil, time, glob
prop, name, mdir, wt, demopkg = sys.argv[1:6]
checks = sys.argv[6].split(",") if len(sys.argv) > 6 else [prop]
env = dict(os.environ, GOFLAGS="-mod=mod", GOPROXY="off", GOSUMDB="off", GOTOOLCHAIN="local")
def sh(cmd, cwd, timeout=1800):
    p = subprocess.run(cmd, cwd=cwd, shell=True, env=env, stdout=subprocess.PIPE, stderr=subprocess.STDOUT, timeout=timeout)
    return p.returncode, p.stdout.decode("utf-8", "replace")
patch = os.path.join(mdir, "patch.diff")
import re as _re
_m = _re.search(r"demo_tags:\s*`?([\w,]+)`?", open(os.path.join(mdir, "notes.md")).read()) if os.path.exists(os.path.join(mdir, "notes.md")) else None
TAGS = ("-tags " + _m.group(1)) if _m else ""
meta = {"property": prop, "name": name, "ran": []}
def step(label, cmd, cwd, **kw):
    rc, out = sh(cmd, cwd, **kw)
    meta["ran"].append({"step": label, "cmd": cmd, "cwd": cwd, "rc": rc, "tail": out[-600:]})
    print("%-28s rc=%d" % (label, rc))
    return rc, out
assert sh("git status --porcelain --untracked-files=no", wt)[1].strip() == "", "worktree not clean"
# keep the agent's out/ directory out of ./... (nested module)
if os.path.isdir(os.path.join(wt, "out")) and not os.path.exists(os.path.join(wt, "out", "go.mod")):
    open(os.path.join(wt, "out", "go.mod"), "w").write("module out\n\ngo 1.18\n")
demo_files = [f for f in glob.glob(os.path.join(mdir, "*")) if os.path.basename(f).startswith("demo")]
placed = []
def place_demo():
    for f in demo_files:
        if os.path.isdir(f):
            dst = os.path.join(wt, demopkg, os.path.basename(f) + "_seed")
            shutil.copytree(f, dst); placed.append(dst)
        else:
            dst = os.path.join(wt, demopkg, "zz_seed_" + os.path.basename(f))
            shutil.copyfile(f, dst); placed.append(dst)
def run_demo():
    if any(os.path.isdir(p) for p in placed):
        d = [p for p in placed if os.path.isdir(p)][0]
        return sh("go run ./" + os.path.relpath(d, wt), wt, timeout=300)
    return sh("go test %s -vet=off -count=1 -run 'Demo|Seed|Mutant|Test' ./%s" % (TAGS, demopkg), wt, timeout=300)
ok = True
rc, _ = step("apply (scratch)", "git apply " + patch, wt); ok &= rc == 0
rc, _ = step("build with mutant", "go build ./...", wt); ok &= rc == 0
rc, _ = step("existing tests with mutant", "go test -vet=off -count=1 ./...", wt); ok &= rc == 0
place_demo()
rc, out = run_demo(); meta["ran"].append({"step": "demo with mutant (must fail)", "rc": rc, "tail": out[-600:]}); print("%-28s rc=%d" % ("demo with mutant", rc)); ok &= rc != 0
step("undo (scratch)", "git apply -R " + patch, wt)
rc, out = run_demo(); meta["ran"].append({"step": "demo without mutant (must pass)", "rc": rc, "tail": out[-600:]}); print("%-28s rc=%d" % ("demo without mutant", rc)); ok &= rc == 0
for p in placed:
    shutil.rmtree(p) if os.path.isdir(p) else os.remove(p)
meta["confirmed"] = bool(ok)
detected = {}
if ok and os.environ.get("SEED_NO_CHECK"):
    meta["applies_to_repo"] = sh("git apply --check " + patch, "/repo")[0] == 0
    meta["checks_note"] = "detection recorded in seeded/MATRIX.json (tools_matrix.py runs the checks on copies)"
elif ok:
    rc, out = sh("git apply --check " + patch, "/repo")
    if rc != 0:
        meta["applies_to_repo"] = False
        print("patch does not apply to /repo's working tree:", out[-300:])
    else:
        meta["applies_to_repo"] = True
        import fcntl
        _lock = open("/tmp/verif-repo.lock", "w")
        fcntl.flock(_lock, fcntl.LOCK_EX)   # ordinary ./check runs hold it shared while they read /repo
        env["VERIF_REPO_LOCKED"] = "1"
        sh("git apply " + patch, "/repo")
        try:
            for cid in checks:
                t0 = time.time()
                rc, out = sh("./check run %s --tier quick" % cid, "/verif", timeout=3600)
                viol = [l for l in out.splitlines() if l.startswith("VIOLATION")]
                detected[cid] = {"rc": rc, "violation_lines": viol, "summary": out.strip().splitlines()[-1:], "wall_s": round(time.time() - t0)}
                if viol:
                    rp = viol[0].split("replay=")[1].split()[0]
                    try:
                        r = json.load(open(rp)); detected[cid]["replay_kind"] = r.get("kind"); detected[cid]["replay_case"] = json.dumps(r.get("case"))[:400]
                    except Exception as e:
                        detected[cid]["replay_kind"] = "unreadable: %s" % e
                print("check %s: rc=%d %s" % (cid, rc, viol[:1]))
        finally:
            sh("git apply -R " + patch, "/repo")
            fcntl.flock(_lock, fcntl.LOCK_UN)
meta["checks"] = detected
out = os.path.join("/verif/seeded", name)
os.makedirs(out, exist_ok=True)
for f in glob.glob(os.path.join(mdir, "*")):
    (shutil.copytree if os.path.isdir(f) else shutil.copyfile)(f, os.path.join(out, os.path.basename(f)), **({"dirs_exist_ok": True} if os.path.isdir(f) else {}))
meta["demo_package_dir"] = demopkg
json.dump(meta, open(os.path.join(out, "meta.json"), "w"), indent=1)
print("confirmed=%s detected=%s" % (ok, {k: bool(v["violation_lines"]) for k, v in detected.items()}))
