#!/usr/bin/env python3
"""development aid: run the owning quick check against every seeded change, in parallel, on COPIES.

  tools_matrix.py [-j N] [--only Cnn[,Cnn..]] [--names a,b,...] [--out matrix.json]

Each worker k gets /tmp/mx/v<k> (a copy of /verif with its build output) and /tmp/mx/r<k> (a copy of
/repo's working tree); the copy's harness module replaces the vaxis module by r<k>.  /repo and /verif
themselves are never touched.  For every seeded/<name>: apply patch.diff to r<k>, run `check run <prop>`
in v<k>, record rc / VIOLATION lines / replay kind, undo.  Results go to seeded/MATRIX.json
(development record; evidence files are not written by these runs: VERIF_REPO_LOCKED makes the
orchestrator write evidence under work/).  The copies are removed at the end."""
import sys, os, json, subprocess, shutil, glob, time, threading, queue

args = sys.argv[1:]
J, only, names, outp = 5, None, None, "/verif/seeded/MATRIX.json"
i = 0
while i < len(args):
    if args[i] == "-j": J = int(args[i + 1]); i += 2
    elif args[i] == "--only": only = args[i + 1].split(","); i += 2
    elif args[i] == "--names": names = args[i + 1].split(","); i += 2
    elif args[i] == "--out": outp = args[i + 1]; i += 2
    else: raise SystemExit("bad arg " + args[i])

muts = []
for d in sorted(glob.glob("/verif/seeded/*/")):
    n = os.path.basename(d.rstrip("/"))
    try:
        m = json.load(open(d + "meta.json"))
    except Exception:
        continue
    if only and m["property"] not in only: continue
    if names and n not in names: continue
    muts.append((n, m["property"], m.get("also_check", [])))

MX = "/tmp/mx%d" % os.getpid()
os.makedirs(MX, exist_ok=True)
q = queue.Queue()
for m in muts: q.put(m)
results = {}
lock = threading.Lock()


def sh(cmd, cwd=None, env=None, timeout=3600):
    p = subprocess.run(cmd, cwd=cwd, shell=True, env=env, stdout=subprocess.PIPE, stderr=subprocess.STDOUT, timeout=timeout)
    return p.returncode, p.stdout.decode("utf-8", "replace")


def worker(k):
    v, r = "%s/v%d" % (MX, k), "%s/r%d" % (MX, k)
    for p in (v, r):
        shutil.rmtree(p, ignore_errors=True)
    sh("rsync -a --exclude .git --exclude work --exclude seeded /verif/ %s/" % v)
    sh("rsync -a /repo/ %s/" % r)
    sh("sed -i 's#=> /repo#=> %s#' %s/harness/go.mod" % (r, v))
    env = dict(os.environ, VERIF_REPO=r, VERIF_REPO_LOCKED="1")
    while True:
        try:
            name, prop, also = q.get_nowait()
        except queue.Empty:
            break
        patch = "/verif/seeded/%s/patch.diff" % name
        rc, out = sh("git apply %s" % patch, cwd=r)
        res = {"property": prop}
        if rc != 0:
            res["error"] = "patch does not apply: " + out[-300:]
        else:
            for cid in [prop] + list(also):
                t0 = time.time()
                rc, out = sh("./check run %s --tier quick" % cid, cwd=v, env=env)
                viol = [l for l in out.splitlines() if l.startswith("VIOLATION")]
                e = {"rc": rc, "violation_lines": viol, "summary": [l for l in out.splitlines() if " tier=" in l][-1:], "wall_s": round(time.time() - t0)}
                if viol:
                    try:
                        rp = viol[0].split("replay=")[1].split()[0]
                        rj = json.load(open(rp)); e["replay_kind"] = rj.get("kind"); e["replay_case"] = json.dumps(rj.get("case"))[:300]
                    except Exception as ex:
                        e["replay_kind"] = "unreadable: %s" % ex
                e["verdict"] = ("missed" if not viol or rc != 1 else "no-failing-input" if any("no-failing-input-found" in l for l in viol) else "failing-input")
                res[cid] = e
            sh("git apply -R %s" % patch, cwd=r)
            rc2, out2 = sh("git status --porcelain --untracked-files=no", cwd=r)
            rc3, out3 = sh("git -C /repo status --porcelain --untracked-files=no")
            if out2.strip() != out3.strip():
                sh("rsync -a --delete /repo/ %s/" % r)
        with lock:
            results[name] = res
            print("%-42s %s" % (name, " ".join("%s=%s" % (c, res[c]["verdict"]) for c in res if isinstance(res[c], dict) and "verdict" in res[c]) or res.get("error")), flush=True)
    shutil.rmtree(v, ignore_errors=True); shutil.rmtree(r, ignore_errors=True)


ths = [threading.Thread(target=worker, args=(k,)) for k in range(min(J, len(muts)))]
for t in ths: t.start()
for t in ths: t.join()
old = {}
if os.path.exists(outp):
    try: old = json.load(open(outp))
    except Exception: old = {}
old.update(results)
json.dump(old, open(outp, "w"), indent=1, sort_keys=True)
bad = [n for n, r in sorted(results.items()) if any(isinstance(v, dict) and v.get("verdict") != "failing-input" for k, v in r.items() if k == r.get("property")) or "error" in r]
print("not reported with a failing input by the owning check (%d/%d):" % (len(bad), len(results)))
for n in bad: print("  ", n, results[n].get("error") or results[n][results[n]["property"]]["verdict"])
try: os.rmdir(MX)
except OSError: pass
