#!/usr/bin/env python3
"""development aid: which statements of a property's anchored files does its harness never execute?
   tools_cov.py <profile> <file> [<file>...]   (profile from `go tool covdata textfmt`)"""
import sys, re, collections
prof, files = sys.argv[1], sys.argv[2:]
blocks = collections.defaultdict(dict)
for l in open(prof):
    m = re.match(r"^(.*?):(\d+)\.(\d+),(\d+)\.(\d+) (\d+) (\d+)$", l.strip())
    if not m: continue
    f = m.group(1).replace("git.sr.ht/~rockorager/vaxis/", "")
    key = (int(m.group(2)), int(m.group(4)))
    blocks[f][key] = max(blocks[f].get(key, 0), int(m.group(7)))
for f in files:
    b = blocks.get(f, {})
    tot = len(b); unc = sorted(k for k, v in b.items() if v == 0)
    print("%s: %d blocks, %d never executed" % (f, tot, len(unc)))
    src = open("/repo/" + f).read().splitlines()
    for (a, z) in unc:
        print("   %d-%d: %s" % (a, z, src[a - 1].strip()[:110]))
